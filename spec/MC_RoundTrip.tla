--------------------------- MODULE MC_RoundTrip ---------------------------
(* Exhaustive configuration: every (type, value) of the bounded universe   *)
(* through serializer, full-copy reader and ε-copy reader on perfect       *)
(* sink/reader; public entry points with the harness' type-name lengths    *)
(* and body-only runs at every preceding length 0..Pres.                   *)
EXTENDS EpsSystem, IOUtils

CONSTANTS TypeSet, Pres

\* type-name lengths measured by the harness (key -> length); 0 if unknown
NameLens == IF "NAMES" \in DOMAIN IOEnv THEN JsonDeserialize(IOEnv.NAMES) ELSE [x \in {} |-> 0]
NameLenOf(t) == LET k == Key(Norm(t)) IN IF k \in DOMAIN NameLens THEN NameLens[k] ELSE 0

TS == CASE TypeSet = "small1" -> Types1Small
        [] TypeSet = "quick1" -> Types1Quick
        [] TypeSet = "full1"  -> Types1Full
        [] TypeSet = "small2" -> Types2Small
        [] TypeSet = "tiny"   -> {Vec(ZPad), G(Vec(U32)), Option(StringT), DE, ZEP, Array(3, ZA16)}

CasesOf(t) ==
  LET vs == Values(t)
      nl == NameLenOf(t)
  IN {Case(t, vs[i], "pub", nl, 0, -1, 0) : i \in 1..Len(vs)}
     \cup {Case(t, vs[i], "body", 0, p, -1, 0) : i \in 1..Len(vs), p \in Pres}
Cases == UNION {CasesOf(t) : t \in TS}

Init == SysInit(Cases)
Next == SysNext
Spec == Init /\ [][Next]_vars
====
