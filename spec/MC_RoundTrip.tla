--------------------------- MODULE MC_RoundTrip ---------------------------
(* Exhaustive configuration: every (type, value) of the bounded universe   *)
(* through serializer, full-copy reader and ε-copy reader on perfect       *)
(* sink/reader; public entry points with the harness' type-name lengths    *)
(* and body-only runs at every preceding length 0..Pres.                   *)
EXTENDS EpsSystem, Derive, IOUtils

CONSTANTS TypeSet, Pres

\* type-name lengths measured by the harness (key -> length); 0 if unknown
NameLens == IF "NAMES" \in DOMAIN IOEnv THEN JsonDeserialize(IOEnv.NAMES) ELSE [x \in {} |-> 0]
NameLenOf(t) == LET k == Key(Norm(t)) IN IF k \in DOMAIN NameLens THEN NameLens[k] ELSE 0

TS == IF TypeSet = "grammar" THEN GrammarTypes ELSE TypesOf(TypeSet)

\* The initial choice is written with nested quantifiers rather than as membership in a set
\* of case records: TLC would have to build and sort that set (minutes for 3*10^4 records).
ChooseCase ==
  \E t \in TS :
    LET vs == Values(t)
        k == Key(Norm(t))
        nl == IF k \in DOMAIN NameLens THEN NameLens[k] ELSE 0
    IN \E i \in 1..Len(vs) :
         \/ case = Case(t, vs[i], "pub", nl, 0, -1, 0)
         \/ \E p \in Pres : case = Case(t, vs[i], "body", 0, p, -1, 0)

Init == ChooseCase /\ SysInitRest
Next == SysNext
Spec == Init /\ [][Next]_vars
====
