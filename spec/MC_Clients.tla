---------------------------- MODULE MC_Clients ----------------------------
EXTENDS Clients, Json
\* every program that ends in a use (the others observe nothing), with its classification
Interesting == prog # <<>> /\ prog[Len(prog)][1] \in {"use_r", "use_s", "use_e"}
EmitC == Interesting => PrintT(ToJson([family |-> family, prog |-> [i \in 1..Len(prog) |-> prog[i][1]],
                                        accepted |-> accepted, safe |-> safe]))
====
