------------------------------ MODULE MC_Ser ------------------------------
(* The serializer machine alone: faulty sinks (C13), serialize-only source *)
(* kinds and lying iterators (C16).  Terminal states are the behaviours     *)
(* replayed into the real serializer under the same fault schedule.        *)
EXTENDS EpsSystem, IOUtils

CONSTANTS TypeSet, Lies

NameLens == IF "NAMES" \in DOMAIN IOEnv THEN JsonDeserialize(IOEnv.NAMES) ELSE [x \in {} |-> 0]

TS == CASE TypeSet = "src-small" -> SerOnlyOf("small1")
        [] TypeSet = "src-quick" -> SerOnlyOf("quick1")
        [] TypeSet = "src-full"  -> SerOnlyOf("full1")
        [] TypeSet = "fault-small" -> TypesOf("small1") \cup SerOnlyOf("small1")
        [] TypeSet = "fault-quick" -> TypesOf("quick1") \cup SerOnlyOf("quick1")
        [] TypeSet = "fault-tiny" -> {Vec(ZPad), G(Vec(U32)), Slice(U32), Slice(StringT), SerIter(ZPad), G(Slice(U16)), DE}

IsIterKind(t) == t.k = "seriter" \/ (t.k = "struct" /\ t.name = "G" /\ t.tps[1].arg.k = "seriter")
\* announced lengths tried for an iterator yielding n items
AnnOf(t, n) == IF Lies /\ IsIterKind(t) THEN {-1} \cup ((0..3) \ {n}) ELSE {-1}
ItemsLen(t, v) == IF t.k = "seriter" THEN Len(v) ELSE IF IsIterKind(t) THEN Len(v[2]) ELSE 0

ChooseCase ==
  \E t \in TS :
    LET vs == Values(t)
        k == Key(t)
        nl == IF k \in DOMAIN NameLens THEN NameLens[k] ELSE 0
    IN \E i \in 1..Len(vs) : \E a \in AnnOf(t, ItemsLen(t, vs[i])) :
         case = Case(t, vs[i], "pub", nl, 0, a, 0)

Init == ChooseCase /\ SysInitRest
\* serializer only
Next ==
  \/ Load
  \/ /\ phase = "ser" /\ ~SerDone /\ SerNext /\ UNCHANGED <<readVars, sysVars>>
  \/ /\ phase = "ser" /\ SerDone /\ phase' = "done" /\ UNCHANGED <<serVars, readVars, case, exp, fullRes>>

---------------------------------------------------------------------------
\* C13: never a panic, never success after a fault, accepted bytes a prefix, the source untouched
NoPanic == status # "panic"
FaultIsError == (phase = "done" /\ fault # <<"none">>) => status = "WriteError"
NoFaultNoError == (phase = "done" /\ fault = <<"none">> /\ case.ann < 0) => (status = "ok" /\ out = exp)
SourceIntact == src = "intact"
FakeBalanced == (phase = "done" /\ status = "ok") => fake = 0
\* C16: a lying iterator is refused with both counts; an honest source is the vector's stream
LiarRefused ==
  (phase = "done" /\ fault = <<"none">> /\ case.ann >= 0)
     => (status = "LengthMismatch" /\ detail = <<ItemsLen(case.t, case.v), case.ann>>)

SerBehaviour ==
  [key |-> Key(case.t), rkey |-> Key(Norm(case.t)), v |-> case.v, nameLen |-> case.nameLen, ann |-> case.ann,
   ser |-> [st |-> status, detail |-> detail, out |-> out, ncalls |-> ncalls, src |-> src],
   fault |-> fault, exp |-> exp, rows |-> rows]
EmitSer == phase = "done" => PrintT(ToJson(SerBehaviour))
====
