---------------------------- MODULE Trace_Cursor ----------------------------
(***************************************************************************)
(* Trace validation: long random histories recorded from the real          *)
(* AlignedCursor are checked to be behaviours of Cursor.tla.  Each `cop`   *)
(* event must be the specification's action for that operation and         *)
(* argument, with the same result, length and position (and contents       *)
(* whenever the event carries a snapshot).  `init` events start a new      *)
(* history.  Acceptance: every line of the trace is consumed.              *)
(***************************************************************************)
EXTENDS Cursor, TLC, Json, IOUtils, FiniteSets

Rec == ndJsonDeserialize(IOEnv.TRACE)
VARIABLE l
tvars == <<cvars, l>>

Ev == Rec[l]
Has(r, f) == f \in DOMAIN r
ResMatches(e) ==
  /\ ~Has(e.res, "panic")
  /\ e.res.ok = last'.ok
  /\ (last'.ok => e.res.n = last'.n)
  /\ (e.op = "read" => e.res.data = last'.data)
StateMatches(e) ==
  /\ e.len = Len(bytes')
  /\ e.pos = pos'
  /\ e.mis = 0
  /\ (e.snap => e.bytes = bytes')

TInit == l = 1 /\ CInit
TReset ==
  /\ l <= Len(Rec) /\ Ev.ev = "init"
  /\ bytes' = <<>> /\ pos' = 0 /\ last' = Res("init", TRUE, 0, <<>>) /\ l' = l + 1
TOp ==
  /\ l <= Len(Rec) /\ Ev.ev = "cop"
  /\ CASE Ev.op = "write" -> Write(Ev.arg)
       [] Ev.op = "read" -> Read(Ev.arg)
       [] Ev.op = "seek_start" -> SeekStart(Ev.arg)
       [] Ev.op = "seek_cur" -> SeekCurrent(Ev.arg)
       [] Ev.op = "seek_end" -> SeekEnd(Ev.arg)
       [] Ev.op = "set_position" -> SetPosition(Ev.arg)
  /\ ResMatches(Ev) /\ StateMatches(Ev)
  /\ l' = l + 1
TNext == TReset \/ TOp

\* acceptance: the whole trace was consumed (otherwise print the first line that no action matches)
Accepted ==
  LET d == TLCGet("stats").diameter
  IN IF d - 1 = Len(Rec) THEN TRUE
     ELSE Print(<<"TRACE-REJECTED at line", d, IF d <= Len(Rec) THEN Rec[d] ELSE "eof">>, FALSE)
====
