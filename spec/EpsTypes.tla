----------------------------- MODULE EpsTypes -----------------------------
(***************************************************************************)
(* Type descriptors of ε-serde and the "recipe functions" of a type:       *)
(* copy kind, IS_ZERO_COPY, size, native alignment, alignment unit         *)
(* (MaxSizeOf), type-hash preimage, align-hash preimage, ε-copy shape.     *)
(*                                                                         *)
(* Each operator is a transcription of one code location of the pinned    *)
(* tree (named in the comment); they are bound to the code by the         *)
(* harness' `recipes` replay (real size_of / align_of / max_size_of /     *)
(* IS_ZERO_COPY / recording hasher preimages compared with these).        *)
(*                                                                         *)
(* A descriptor is a record with a field k (the kind):                     *)
(*  prim(name) unit rangefull string boxstr phantom(arg)                   *)
(*  vec(elem) boxslice(elem) slice(elem) seriter(elem)                     *)
(*  array(n,elem) tuple(n,elem) option(elem) bound(elem) cflow(b,c)        *)
(*  range(rk,elem)                                                         *)
(*  struct(name,zc,da,reprs,consts,tps,fields)                             *)
(*  enum(name,zc,da,reprs,consts,tps,variants)                             *)
(* Field records: [name, ty, p] where ty is the instantiated type and p is *)
(* the index (1-based) of the type parameter the field type *is*           *)
(* textually, 0 otherwise.                                                 *)
(***************************************************************************)
EXTENDS Naturals, Integers, Sequences, FiniteSets, TLC

CONSTANTS UsizeBytes,   \* 8 on the sandbox; 4 is checked on the model only
          TupleRangeConstTrue,  \* TRUE = pinned tree: tuples and ranges declare IS_ZERO_COPY = true unconditionally
          ZstUnit       \* alignment unit reported by zero-sized built-ins:
                        \* 0 on the pinned tree (defect #4), 1 after the fix

Max(a, b) == IF a >= b THEN a ELSE b
Min(a, b) == IF a <= b THEN a ELSE b
RoundUp(x, a) == IF a = 0 THEN x ELSE ((x + a - 1) \div a) * a

(* lib.rs pad_align_to: (-v) & (u-1) for a power of two u; written here   *)
(* arithmetically.  For u that is not a power of two the code's bit trick *)
(* differs from this; PadToBits below is the literal bit formula.         *)
PadTo(v, u) == IF u = 0 THEN 0 ELSE (u - (v % u)) % u

RECURSIVE BitAnd(_, _)
BitAnd(a, b) == IF a = 0 \/ b = 0 THEN 0
                ELSE (a % 2) * (b % 2) + 2 * BitAnd(a \div 2, b \div 2)
(* literal transcription for 16-bit offsets: (2^16 - v) & (u - 1)          *)
PadToBits(v, u) == BitAnd((65536 - (v % 65536)) % 65536, u - 1)

IsPow2(n) == n \in {1, 2, 4, 8, 16, 32, 64, 128, 256, 512, 1024, 2048, 4096}

---------------------------------------------------------------------------
(* Primitive table: size and native alignment on x86_64.                   *)
PrimTable ==
  [ u8 |-> <<1,1>>, u16 |-> <<2,2>>, u32 |-> <<4,4>>, u64 |-> <<8,8>>,
    u128 |-> <<16,16>>, usize |-> <<UsizeBytes,UsizeBytes>>,
    i8 |-> <<1,1>>, i16 |-> <<2,2>>, i32 |-> <<4,4>>, i64 |-> <<8,8>>,
    i128 |-> <<16,16>>, isize |-> <<UsizeBytes,UsizeBytes>>,
    f32 |-> <<4,4>>, f64 |-> <<8,8>>, bool |-> <<1,1>>, char |-> <<4,4>>,
    NonZeroU8 |-> <<1,1>>, NonZeroU16 |-> <<2,2>>, NonZeroU32 |-> <<4,4>>,
    NonZeroU64 |-> <<8,8>>, NonZeroU128 |-> <<16,16>>,
    NonZeroUsize |-> <<UsizeBytes,UsizeBytes>>,
    NonZeroI8 |-> <<1,1>>, NonZeroI16 |-> <<2,2>>, NonZeroI32 |-> <<4,4>>,
    NonZeroI64 |-> <<8,8>>, NonZeroI128 |-> <<16,16>>,
    NonZeroIsize |-> <<UsizeBytes,UsizeBytes>> ]

PrimNames == DOMAIN PrimTable
PrimSize(n) == PrimTable[n][1]
PrimAlign(n) == PrimTable[n][2]

\* constructors (for readability in the universe modules)
Prim(n)        == [k |-> "prim", name |-> n]
UnitT          == [k |-> "unit"]
RangeFullT     == [k |-> "rangefull"]
StringT        == [k |-> "string"]
BoxStrT        == [k |-> "boxstr"]
Phantom(a)     == [k |-> "phantom", arg |-> a]
Vec(e)         == [k |-> "vec", elem |-> e]
BoxSlice(e)    == [k |-> "boxslice", elem |-> e]
Slice(e)       == [k |-> "slice", elem |-> e]
SerIter(e)     == [k |-> "seriter", elem |-> e]
Array(n, e)    == [k |-> "array", n |-> n, elem |-> e]
Tuple(n, e)    == [k |-> "tuple", n |-> n, elem |-> e]
Option(e)      == [k |-> "option", elem |-> e]
Bound(e)       == [k |-> "bound", elem |-> e]
CFlow(b, c)    == [k |-> "cflow", b |-> b, c |-> c]
Range(rk, e)   == [k |-> "range", rk |-> rk, elem |-> e]
Fld(n, t, p)   == [name |-> n, ty |-> t, p |-> p]
TP(n, a, u)    == [name |-> n, arg |-> a, used |-> u]
Cst(n, ck, v)  == [name |-> n, ck |-> ck, val |-> v]
Struct(n, zc, da, reprs, consts, tps, fields) ==
  [k |-> "struct", name |-> n, zc |-> zc, da |-> da, reprs |-> reprs,
   consts |-> consts, tps |-> tps, fields |-> fields]
Var(n, vk, fields) == [name |-> n, vk |-> vk, fields |-> fields]
Enum(n, zc, da, reprs, consts, tps, variants) ==
  [k |-> "enum", name |-> n, zc |-> zc, da |-> da, reprs |-> reprs,
   consts |-> consts, tps |-> tps, variants |-> variants]

RangeKinds == {"Range", "RangeFrom", "RangeInclusive", "RangeTo", "RangeToInclusive"}
\* which fields a range kind has, in serialization order
RangeArity(rk) == IF rk \in {"Range", "RangeInclusive"} THEN 2 ELSE 1
\* Copy ranges (can be elements of zero-copy blocks)
RangeIsCopy(rk) == rk \in {"RangeTo", "RangeToInclusive"}

SeqKinds == {"vec", "boxslice", "slice", "seriter"}

---------------------------------------------------------------------------
(* generic folds                                                           *)
RECURSIVE SumSeq(_)
SumSeq(s) == IF s = <<>> THEN 0 ELSE Head(s) + SumSeq(Tail(s))
RECURSIVE MaxSeq(_)
MaxSeq(s) == IF s = <<>> THEN 0 ELSE Max(Head(s), MaxSeq(Tail(s)))
\* concatenation of a sequence of sequences.  The argument is usually a function expression
\* [i \in 1..n |-> ...], which TLC evaluates lazily and *re-evaluates at every application*: SubSeq turns it
\* into a concrete tuple first (each element evaluated once), or nested uses become exponential
RECURSIVE CatT(_)
CatT(t) == IF t = <<>> THEN <<>> ELSE Head(t) \o CatT(Tail(t))
Cat(ss) == CatT(SubSeq(ss, 1, Len(ss)))
AllSeq(s, P(_)) == \A i \in 1..Len(s) : P(s[i])

ReprAlign(r) ==
  CASE r = "align(2)" -> 2 [] r = "align(4)" -> 4 [] r = "align(8)" -> 8
    [] r = "align(16)" -> 16 [] r = "align(32)" -> 32 [] r = "align(64)" -> 64
    [] OTHER -> 1
HasReprC(T) == \E i \in 1..Len(T.reprs) : T.reprs[i] = "C"
AllFields(T) ==
  IF T.k = "struct" THEN T.fields
  ELSE Cat([i \in 1..Len(T.variants) |-> T.variants[i].fields])

---------------------------------------------------------------------------
(* CopyType::Copy = Zero ?  (traits/copy_type.rs, impls, derive 430/479)   *)
\* kind "hw": a hand-written implementation that *claims* CopyType::Copy = Zero although the type holds a
\* pointer (tests/test_bad_ser.rs): IS_ZERO_COPY = false is the only thing that gives it away (C17)
HwT == [k |-> "hw"]
RECURSIVE IsZC(_)
IsZC(T) ==
  CASE T.k \in {"prim", "unit", "rangefull", "phantom", "tuple", "range", "hw"} -> TRUE
    [] T.k = "array" -> IsZC(T.elem)
    [] T.k \in {"struct", "enum"} -> T.zc
    [] OTHER -> FALSE

(* SerializeInner::IS_ZERO_COPY (impls; derive 438-440)                    *)
RECURSIVE IsZCConst(_)
IsZCConst(T) ==
  CASE T.k \in {"prim", "unit", "rangefull", "phantom"} -> TRUE
    [] T.k = "hw" -> FALSE
    \* impls/tuple.rs and impls/stdlib.rs declare `IS_ZERO_COPY = true` whatever the element is
    \* (TupleRangeConstTrue = pinned tree); the repaired code propagates the element's constant
    [] T.k \in {"tuple", "range"} -> IF TupleRangeConstTrue THEN TRUE ELSE IsZCConst(T.elem)
    [] T.k = "array" -> IsZCConst(T.elem)
    [] T.k \in {"struct", "enum"} ->
         HasReprC(T) /\ \A i \in 1..Len(AllFields(T)) : IsZCConst(AllFields(T)[i].ty)
    [] OTHER -> FALSE

(* ZERO_COPY_MISMATCH (derive 493, 818): warning only                      *)
ZeroCopyMismatch(T) ==
  IF T.k \in {"struct", "enum"} /\ ~T.zc
  THEN ~T.da /\ \A i \in 1..Len(AllFields(T)) : IsZCConst(AllFields(T)[i].ty)
  ELSE IF T.k = "array" THEN FALSE ELSE FALSE

(* Is the Rust type Copy (needed for ZeroCopy; decides what can be an     *)
(* element of a zero-copy block)                                           *)
RECURSIVE IsCopy(_)
IsCopy(T) ==
  CASE T.k \in {"prim", "unit", "rangefull", "phantom", "hw"} -> TRUE
    [] T.k \in {"array", "tuple"} -> IsCopy(T.elem)
    [] T.k = "range" -> RangeIsCopy(T.rk) /\ IsCopy(T.elem)
    [] T.k \in {"struct", "enum"} -> T.zc
    [] OTHER -> FALSE

(* T : ZeroCopy  (CopyType<Copy=Zero> + Copy + MaxSizeOf + 'static)        *)
IsZeroCopyTrait(T) == IsZC(T) /\ IsCopy(T)

---------------------------------------------------------------------------
(* Memory layout: size_of / align_of for the repr(C) algorithm.            *)
RECURSIVE SizeOf(_), AlignOf(_), LayoutEnd(_, _, _)

\* end offset after laying the fields i.. out from offset off
LayoutEnd(fields, i, off) ==
  IF i > Len(fields) THEN off
  ELSE LET t == fields[i].ty
       IN LayoutEnd(fields, i + 1, RoundUp(off, AlignOf(t)) + SizeOf(t))

FieldsAlign(fields) == MaxSeq([i \in 1..Len(fields) |-> AlignOf(fields[i].ty)])
ReprsAlign(T) == MaxSeq([i \in 1..Len(T.reprs) |-> ReprAlign(T.reprs[i])])

\* repr(C) enum: struct { tag: c_int; union { struct Vi {fields} } }
EnumHasPayload(T) == \E i \in 1..Len(T.variants) : T.variants[i].fields # <<>>
EnumUnionAlign(T) == Max(1, MaxSeq([i \in 1..Len(T.variants) |-> FieldsAlign(T.variants[i].fields)]))
EnumUnionSize(T) ==
  RoundUp(MaxSeq([i \in 1..Len(T.variants) |->
              RoundUp(LayoutEnd(T.variants[i].fields, 1, 0),
                      Max(1, FieldsAlign(T.variants[i].fields)))]),
          EnumUnionAlign(T))
EnumPayloadOff(T) == RoundUp(4, EnumUnionAlign(T))

AlignOf(T) ==
  CASE T.k = "prim" -> PrimAlign(T.name)
    [] T.k = "hw" -> UsizeBytes
    [] T.k \in {"unit", "rangefull", "phantom"} -> 1
    [] T.k \in {"array", "tuple"} -> AlignOf(T.elem)
    [] T.k = "range" -> AlignOf(T.elem)
    [] T.k = "struct" -> Max(Max(1, FieldsAlign(T.fields)), ReprsAlign(T))
    [] T.k = "enum" -> Max(Max(4, EnumUnionAlign(T)), ReprsAlign(T))
    [] OTHER -> UsizeBytes    \* heap handles; never used for blocks

SizeOf(T) ==
  CASE T.k = "prim" -> PrimSize(T.name)
    [] T.k = "hw" -> 2 * UsizeBytes
    [] T.k \in {"unit", "rangefull", "phantom"} -> 0
    [] T.k \in {"array", "tuple"} -> T.n * SizeOf(T.elem)
    [] T.k = "range" ->
         IF T.rk = "RangeInclusive"
         THEN RoundUp(2 * SizeOf(T.elem) + 1, AlignOf(T.elem))
         ELSE RangeArity(T.rk) * SizeOf(T.elem)
    [] T.k = "struct" -> RoundUp(LayoutEnd(T.fields, 1, 0), AlignOf(T))
    [] T.k = "enum" ->
         IF EnumHasPayload(T)
         THEN RoundUp(EnumPayloadOff(T) + EnumUnionSize(T), AlignOf(T))
         ELSE RoundUp(4, AlignOf(T))
    [] OTHER -> 3 * UsizeBytes

\* offset of field j of a struct-like field list laid out from 0
RECURSIVE FieldOff(_, _)
FieldOff(fields, j) ==
  IF j = 1 THEN 0
  ELSE RoundUp(FieldOff(fields, j - 1) + SizeOf(fields[j - 1].ty), AlignOf(fields[j].ty))

---------------------------------------------------------------------------
(* MaxSizeOf::max_size_of — the alignment unit (impls/*.rs, derive 1050+)  *)
RECURSIVE Unit(_)
Unit(T) ==
  CASE T.k = "prim" -> PrimSize(T.name)
    [] T.k = "hw" -> UsizeBytes
    [] T.k = "unit" -> ZstUnit          \* impl_prim_type_hash!((), ..) = size_of
    [] T.k \in {"rangefull", "phantom"} -> ZstUnit
    [] T.k \in {"array", "tuple"} -> Unit(T.elem)
    [] T.k = "range" -> SizeOf(T)
    [] T.k \in {"struct", "enum"} ->
         Max(AlignOf(T), MaxSeq([i \in 1..Len(AllFields(T)) |-> Unit(AllFields(T)[i].ty)]))
    [] OTHER -> 1

---------------------------------------------------------------------------
(* Hash preimages as token sequences.  <<"s", str>> = str::hash (bytes     *)
(* then 0xFF); <<"u", n>> = write_usize(n); <<"b", n>> = write_u8(n).      *)
HS(x) == << <<"s", x>> >>
HU(n) == << <<"u", n>> >>

ConstTok(c) == IF c.ck = "bool" THEN << <<"b", c.val>> >> ELSE << <<"u", c.val>> >>

RECURSIVE TypeHashPre(_)
TypeHashPre(T) ==
  CASE T.k = "prim" -> HS(T.name)
    [] T.k = "hw" -> HS("HW")
    [] T.k = "unit" -> HS("()")
    [] T.k = "rangefull" -> HS("core::ops::RangeFull")
    [] T.k = "string" -> HS("String")
    [] T.k = "boxstr" -> HS("Box<str>")
    [] T.k = "str" -> HS("str")
    [] T.k = "phantom" -> HS("PhantomData") \o TypeHashPre(T.arg)
    [] T.k \in {"vec", "slice", "seriter"} -> HS("Vec") \o TypeHashPre(T.elem)
    [] T.k = "boxslice" -> HS("Box<[]>") \o TypeHashPre(T.elem)
    [] T.k = "array" -> HS("[]") \o HU(T.n) \o TypeHashPre(T.elem)
    [] T.k = "tuple" -> HS("()") \o Cat([i \in 1..T.n |-> TypeHashPre(T.elem)])
    [] T.k = "htuple" -> HS("()") \o Cat([i \in 1..Len(T.elems) |-> TypeHashPre(T.elems[i])])
    [] T.k = "option" -> HS("Option") \o TypeHashPre(T.elem)
    [] T.k = "bound" -> HS("core::ops::Bound") \o TypeHashPre(T.elem)
    [] T.k = "cflow" -> HS("core::ops::ControlFlow") \o TypeHashPre(T.b) \o TypeHashPre(T.c)
    [] T.k = "range" ->   \* stringify!(core::ops::$ty) inside impl_ranges!: the tokens are spaced
         HS("core :: ops :: " \o T.rk) \o TypeHashPre(T.elem)
    [] T.k = "struct" ->
         HS(IF T.zc THEN "ZeroCopy" ELSE "DeepCopy")
         \o Cat([i \in 1..Len(T.consts) |-> ConstTok(T.consts[i])])
         \o Cat([i \in 1..Len(T.consts) |-> HS(T.consts[i].name)])
         \o HS(T.name)
         \o Cat([i \in 1..Len(T.fields) |-> HS(T.fields[i].name)])
         \o Cat([i \in 1..Len(T.fields) |-> TypeHashPre(T.fields[i].ty)])
    [] T.k = "enum" ->
         HS(IF T.zc THEN "ZeroCopy" ELSE "DeepCopy")
         \o Cat([i \in 1..Len(T.consts) |-> ConstTok(T.consts[i])])
         \o Cat([i \in 1..Len(T.consts) |-> HS(T.consts[i].name)])
         \o HS(T.name)
         \o Cat([i \in 1..Len(T.variants) |->
                  HS(T.variants[i].name)
                  \o Cat([j \in 1..Len(T.variants[i].fields) |->
                           HS(T.variants[i].fields[j].name)
                           \o TypeHashPre(T.variants[i].fields[j].ty)])])

(* AlignHash: returns <<tokens, new offset>>                               *)
StdAlignHash(T, off) ==
  LET pad == PadTo(off, AlignOf(T))
  IN << HU(pad) \o HU(SizeOf(T)), off + pad + SizeOf(T) >>

RECURSIVE AlignHashAt(_, _), AlignHashFields(_, _, _)
\* fields i.. hashed in sequence on a shared offset
AlignHashFields(fields, i, off) ==
  IF i > Len(fields) THEN << <<>>, off >>
  ELSE LET h == AlignHashAt(fields[i].ty, off)
           r == AlignHashFields(fields, i + 1, h[2])
       IN << h[1] \o r[1], r[2] >>

RECURSIVE AlignHashVariants(_, _, _, _)
\* variants i.. : offset reset to `entry` before each one
AlignHashVariants(vs, i, entry, cur) ==
  IF i > Len(vs) THEN << <<>>, cur >>
  ELSE LET h == AlignHashFields(vs[i].fields, 1, entry)
           r == AlignHashVariants(vs, i + 1, entry, h[2])
       IN << h[1] \o r[1], r[2] >>

RECURSIVE AlignHashRep(_, _, _)
AlignHashRep(T, n, off) ==
  IF n = 0 THEN << <<>>, off >>
  ELSE LET h == AlignHashAt(T, off)
           r == AlignHashRep(T, n - 1, h[2])
       IN << h[1] \o r[1], r[2] >>

AlignHashAt(T, off) ==
  CASE T.k \in {"prim", "unit", "hw"} -> StdAlignHash(T, off)
    [] T.k \in {"phantom", "rangefull", "string", "boxstr", "bound", "str"} -> << <<>>, off >>
    [] T.k \in {"option", "vec", "boxslice", "slice", "seriter"} ->
         << AlignHashAt(T.elem, 0)[1], off >>
    [] T.k = "cflow" -> << AlignHashAt(T.b, 0)[1] \o AlignHashAt(T.c, 0)[1], off >>
    [] T.k = "array" ->
         IF T.n = 0 THEN << <<>>, off >>
         ELSE LET h == AlignHashAt(T.elem, off)
              IN << h[1], h[2] + (T.n - 1) * SizeOf(T.elem) >>
    [] T.k = "tuple" -> AlignHashRep(T.elem, T.n, off)
    [] T.k = "range" ->
         LET h1 == StdAlignHash(T.elem, off)
             h2 == StdAlignHash(T.elem, h1[2])
         IN << h1[1] \o h2[1], h2[2] >>
    [] T.k = "struct" ->
         IF T.zc
         THEN LET h == AlignHashFields(T.fields, 1, off)
              IN << HU(SizeOf(T)) \o Cat([i \in 1..Len(T.reprs) |-> HS(T.reprs[i])]) \o h[1], h[2] >>
         ELSE << Cat([i \in 1..Len(T.fields) |-> AlignHashAt(T.fields[i].ty, 0)[1]]), off >>
    [] T.k = "enum" ->
         IF T.zc
         THEN LET h == AlignHashVariants(T.variants, 1, off, off)
              IN << HU(SizeOf(T)) \o Cat([i \in 1..Len(T.reprs) |-> HS(T.reprs[i])]) \o h[1], h[2] >>
         ELSE \* derive 1299-1313: `*offset_of = 0` before each variant (caller's offset is clobbered)
              AlignHashVariants(T.variants, 1, 0, off)

TypeHashOf(T) == TypeHashPre(T)
AlignHashOf(T) == AlignHashAt(T, 0)[1]

---------------------------------------------------------------------------
(* Norm: the serialized type (SerType) — slices and exact-size iterators   *)
(* are written, and must be read, as vectors.                              *)
RECURSIVE Norm(_)
NormFields(fs) == [i \in 1..Len(fs) |-> [fs[i] EXCEPT !.ty = Norm(fs[i].ty)]]
Norm(T) ==
  CASE T.k \in {"slice", "seriter"} -> Vec(Norm(T.elem))
    [] T.k \in {"vec", "boxslice", "option", "bound"} -> [T EXCEPT !.elem = Norm(T.elem)]
    [] T.k \in {"array", "tuple", "range"} -> [T EXCEPT !.elem = Norm(T.elem)]
    [] T.k = "cflow" -> [T EXCEPT !.b = Norm(T.b), !.c = Norm(T.c)]
    [] T.k = "struct" ->
         [T EXCEPT !.fields = NormFields(T.fields),
                   !.tps = [i \in 1..Len(T.tps) |-> [T.tps[i] EXCEPT !.arg = Norm(T.tps[i].arg)]]]
    [] T.k = "enum" ->
         [T EXCEPT !.variants = [i \in 1..Len(T.variants) |->
                                   [T.variants[i] EXCEPT !.fields = NormFields(T.variants[i].fields)]],
                   !.tps = [i \in 1..Len(T.tps) |-> [T.tps[i] EXCEPT !.arg = Norm(T.tps[i].arg)]]]
    [] OTHER -> T

(* The semantic notion C04 quantifies over: same serialized structure.     *)
(* Defined on descriptors, independently of the hash recipes.  Phantom     *)
(* arguments and type-parameter names are structure too (the former is     *)
(* documented: "we must be able to tell apart structures with different    *)
(* type parameters stored in a PhantomData").                              *)
RECURSIVE Erase(_)
EraseFields(fs) == [i \in 1..Len(fs) |-> [name |-> fs[i].name, ty |-> Erase(fs[i].ty)]]
Erase(T) ==
  CASE T.k \in {"vec", "boxslice", "option", "bound", "array", "tuple", "range"} ->
         [T EXCEPT !.elem = Erase(T.elem)]
    [] T.k = "phantom" -> [T EXCEPT !.arg = Erase(T.arg)]
    [] T.k = "cflow" -> [T EXCEPT !.b = Erase(T.b), !.c = Erase(T.c)]
    [] T.k = "struct" ->
         \* type-parameter *names* are not part of the structure; arguments
         \* are visible through the instantiated field types
         [k |-> "struct", name |-> T.name, zc |-> T.zc,
          reprs |-> IF T.zc THEN T.reprs ELSE <<>>,
          consts |-> T.consts, fields |-> EraseFields(T.fields),
          lay |-> IF T.zc THEN <<SizeOf(T)>> ELSE <<>>]
    [] T.k = "enum" ->
         [k |-> "enum", name |-> T.name, zc |-> T.zc,
          reprs |-> IF T.zc THEN T.reprs ELSE <<>>,
          consts |-> T.consts,
          variants |-> [i \in 1..Len(T.variants) |->
                         [name |-> T.variants[i].name,
                          fields |-> EraseFields(T.variants[i].fields)]],
          lay |-> IF T.zc THEN <<SizeOf(T)>> ELSE <<>>]
    [] OTHER -> T
SameStructure(T, U) == Erase(Norm(T)) = Erase(Norm(U))

---------------------------------------------------------------------------
(* ε-copy shape (DeserType), as a descriptor with extra kinds:            *)
(*   ref(T)     = &T          (zero-copy struct/enum/tuple/array)          *)
(*   bslice(T)  = &[T]        (vec/boxslice of zero-copy elements)         *)
(*   bstr       = &str                                                     *)
(* impls/*.rs, derive 466 / 518 / 791 / 844                                *)
RECURSIVE DeserShape(_)
DeserShape(T) ==
  CASE T.k \in {"prim", "unit", "rangefull", "phantom"} -> T
    [] T.k \in {"string", "boxstr"} -> [k |-> "bstr"]
    [] T.k \in {"vec", "boxslice"} ->
         IF IsZC(T.elem) THEN [k |-> "bslice", elem |-> T.elem]
         ELSE [T EXCEPT !.elem = DeserShape(T.elem)]
    [] T.k = "array" ->
         IF IsZC(T.elem) THEN [k |-> "ref", to |-> T]
         ELSE [T EXCEPT !.elem = DeserShape(T.elem)]
    [] T.k = "tuple" -> [k |-> "ref", to |-> T]
    [] T.k \in {"option", "bound", "range"} -> [T EXCEPT !.elem = DeserShape(T.elem)]
    [] T.k = "cflow" -> [T EXCEPT !.b = DeserShape(T.b), !.c = DeserShape(T.c)]
    [] T.k \in {"struct", "enum"} ->
         IF T.zc THEN [k |-> "ref", to |-> T]
         ELSE \* exactly the parameters that are the type of some field are replaced
              [T EXCEPT !.tps = [i \in 1..Len(T.tps) |->
                    IF T.tps[i].used
                    THEN [T.tps[i] EXCEPT !.arg = DeserShape(T.tps[i].arg)]
                    ELSE T.tps[i]]]
    [] OTHER -> T

(* Can T be the element of a sequence / array (must be ZeroCopy or DeepCopy) *)
CanBeElem(T) ==
  CASE T.k = "range" -> RangeIsCopy(T.rk)
    [] T.k \in {"slice", "seriter"} -> FALSE   \* &[T] is DeepCopy but has no DeserializeInner
    [] OTHER -> TRUE

=============================================================================
