CONSTANTS UsizeBytes = 8 ZstUnit = 1 VLevel = 1 TypeSet = "all"
INIT Init
NEXT Next
