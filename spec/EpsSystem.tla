----------------------------- MODULE EpsSystem -----------------------------
(***************************************************************************)
(* Composition: a case is serialized by the serializer machine, the bytes  *)
(* the sink accepted are read back by the full-copy machine and then by    *)
(* the ε-copy machine.  The invariants of this module are the design-level *)
(* statements of C01, C02, C03, C06, C07, C18 (and, with faults switched   *)
(* on, C13 / C14); the terminal states are the behaviours replayed into    *)
(* the real library.                                                       *)
(***************************************************************************)
EXTENDS EpsRead, Json

VARIABLES
  case,     \* [t, v, mode, nameLen, pre, ann, base]: the initial choice
  phase,    \* "ser" | "full" | "eps" | "done"
  exp,      \* the reference encoding of the case (EpsFormat), computed once
  fullRes   \* what the full-copy run ended with

sysVars == <<case, phase, exp, fullRes>>
vars == <<serVars, readVars, sysVars>>

\* mode "pub": the public entry points (header + ROOT + flush, stream starts at 0)
\* mode "body": _serialize_inner / _deserialize_*_inner at stream position `pre`
Case(t, v, mode, nameLen, pre, ann, b) ==
  [t |-> t, v |-> v, mode |-> mode, nameLen |-> nameLen, pre |-> pre, ann |-> ann, base |-> b]

ProgramOf(c) ==
  IF c.mode = "pub" THEN SerProgram(c.t, c.v, c.nameLen, c.ann) ELSE BodyProgram(c.t, c.v, c.ann)
StartOf(c) == IF c.mode = "pub" THEN 0 ELSE c.pre
\* the reader's buffer: `pre` filler bytes (skipped by the harness) then the accepted bytes
BufferOf(c, bytes) == IF c.mode = "pub" THEN bytes ELSE Zeros(c.pre) \o bytes
FramesOf(c, m) ==
  IF c.mode = "pub" THEN <<FHdr("magic", Norm(c.t), m)>> ELSE <<FR(Norm(c.t), m)>>

\* the fault-free output: what serializing the corresponding *vector* value gives (C16: slices and
\* exact-size iterators are written as the vector; for a lying iterator: the announced length word
\* followed by the items actually yielded)
ExpectedOut(c) ==
  LET full == IF c.mode = "pub" THEN Stream(Norm(c.t), c.v, c.nameLen) ELSE Encode(Norm(c.t), c.v, c.pre)
  IN full

ReadIdle ==
  /\ input = <<>> /\ rpos = 0 /\ base = 0 /\ rstack = <<>> /\ vals = <<>>
  /\ got = <<>> /\ need = -1 /\ acc = <<>> /\ borrows = <<>> /\ allocs = <<>>
  /\ rstatus = "idle" /\ rdetail = <<>> /\ rfaults = 0

ReadReset(bytes, startPos, b, frames) ==
  /\ input' = bytes /\ rpos' = startPos /\ base' = b /\ rstack' = frames /\ vals' = <<>>
  /\ got' = <<>> /\ need' = -1 /\ acc' = <<>> /\ borrows' = <<>> /\ allocs' = <<>>
  /\ rstatus' = "run" /\ rdetail' = <<>> /\ rfaults' = 0

\* The program and the reference encoding are computed in the first step (phase "load"),
\* not in the initial predicate: TLC enumerates initial states with one thread only.
SysInitRest ==
  /\ SerInitWith(<<>>, StartOf(case))
  /\ ReadIdle
  /\ phase = "load" /\ fullRes = [st |-> "none"]
  /\ exp = <<>>
SysInit(Cases) == case \in Cases /\ SysInitRest

Load ==
  /\ phase = "load"
  /\ prog' = ProgramOf(case) /\ exp' = ExpectedOut(case) /\ phase' = "ser"
  /\ UNCHANGED <<pc, pos, pos0, out, status, detail, padleft, cur, inwrite, rows, path, starts, fake, src, faults, ncalls, fault>>
  /\ UNCHANGED <<readVars, case, fullRes>>

ResRec == [st |-> rstatus, detail |-> rdetail, val |-> IF rstatus = "ok" THEN vals ELSE <<>>,
           rpos |-> rpos, allocs |-> allocs]

SysNext ==
  \/ Load
  \/ /\ phase = "ser" /\ ~SerDone /\ SerNext /\ UNCHANGED <<readVars, sysVars>>
  \/ /\ phase = "ser" /\ SerDone
     /\ IF status = "ok"
        THEN /\ phase' = "full"
             /\ ReadReset(BufferOf(case, out), StartOf(case), 0, FramesOf(case, "full"))
        ELSE phase' = "done" /\ UNCHANGED readVars
     /\ UNCHANGED <<serVars, case, exp, fullRes>>
  \/ /\ phase = "full" /\ ~ReadDone /\ ReadNext /\ UNCHANGED <<serVars, sysVars>>
  \/ /\ phase = "full" /\ ReadDone
     /\ fullRes' = ResRec /\ phase' = "eps"
     /\ ReadReset(BufferOf(case, out), StartOf(case), case.base, FramesOf(case, "eps"))
     /\ UNCHANGED <<serVars, case, exp>>
  \/ /\ phase = "eps" /\ ~ReadDone /\ ReadNext /\ UNCHANGED <<serVars, sysVars>>
  \/ /\ phase = "eps" /\ ReadDone /\ phase' = "done" /\ UNCHANGED <<serVars, readVars, case, exp, fullRes>>

---------------------------------------------------------------------------
(* Invariants.                                                             *)

\* C07: WriterWithPos.pos counts exactly the bytes handed to the sink
PosCounts == (phase # "load" /\ status \in {"run", "ok"} /\ ~inwrite) => pos = pos0 + Len(out)

\* C07: every zero-copy block starts on a multiple of its unit, which is a power of two
\*      no smaller than the native alignment of what it holds
BlockAligned ==
  (phase = "ser" /\ Running /\ ~inwrite /\ CurOp.op = "block" /\ CurOp.unit > 0)
     => pos % CurOp.unit = 0
UnitsSane ==
  (phase = "ser" /\ pc = 1) => \A i \in 1..Len(prog) : prog[i].op \in {"align", "block"} => IsPow2(prog[i].unit)

\* C06: the machine's output is the reference encoding
OutIsEncode == (phase # "ser" /\ status = "ok") => out = exp
\* C13: what the sink accepted is always a prefix of the fault-free output
OutIsPrefix == (phase # "load" /\ case.ann < 0) => Len(out) <= Len(exp) /\ out = SubSeq(exp, 1, Len(out))

\* C01 + C07 (consumed count)
FullRoundTrip ==
  (phase \in {"eps", "done"} /\ fullRes.st # "none")
     => /\ fullRes.st = "ok"
        /\ fullRes.val = <<case.v>>
        /\ fullRes.rpos = Len(BufferOf(case, out))
\* C02 + C07
EpsRoundTrip ==
  (phase = "done" /\ status = "ok" /\ (case.base + 0) % 64 = 0)
     => /\ rstatus = "ok"
        /\ vals = <<case.v>>
        /\ rpos = Len(BufferOf(case, out))

\* C03: every borrowed part is a block the serializer wrote, at its offset, with its length
BorrowsInPlace ==
  (phase = "done" /\ rstatus = "ok" /\ Norm(case.t) = case.t)
     => \A i \in 1..Len(borrows) :
           /\ borrows[i].off + borrows[i].len <= Len(input)
           /\ \E j \in 1..Len(rows) :
                 /\ rows[j].field[Len(rows[j].field)] = "zero"
                 /\ rows[j].off = borrows[i].off
                 /\ rows[j].size = borrows[i].len
           /\ borrows[i].len > 0 => (case.base + borrows[i].off) % borrows[i].al = 0

\* C18: geometry of the recorded schema
RowsWithin == (phase = "done" /\ status = "ok") => \A i \in 1..Len(rows) : rows[i].off >= pos0 /\ rows[i].off + rows[i].size <= pos
RowsPreorder == (phase = "done") => \A i \in 1..Len(rows) - 1 :
   \/ rows[i + 1].off >= rows[i].off
RowsAligned == \A i \in 1..Len(rows) : rows[i].align > 0 => rows[i].off % rows[i].align = 0
PaddingZero == (phase = "done") => \A i \in 1..Len(rows) :
   rows[i].field = <<"PADDING">> =>
      \A j \in 1..rows[i].size : (rows[i].off - pos0 + j) <= Len(out) => out[rows[i].off - pos0 + j] = 0
\* children of a composite row tile it: the rows strictly inside the subtree of row i are the
\* following rows whose path extends row i's path; they must cover [off, off+size) without gaps
IsPrefixOf(p, q) == Len(p) <= Len(q) /\ SubSeq(q, 1, Len(p)) = p
RECURSIVE SubtreeEnd(_, _)
\* index of the last row belonging to the subtree rooted at row i
SubtreeEnd(i, j) ==
  IF j > Len(rows) THEN Len(rows)
  ELSE IF \/ /\ rows[j].field = <<"PADDING">>
             /\ rows[j].off >= rows[i].off /\ rows[j].off + rows[j].size <= rows[i].off + rows[i].size
          \/ /\ rows[j].field # <<"PADDING">> /\ rows[i].field # <<"PADDING">>
             /\ IsPrefixOf(rows[i].field, rows[j].field) /\ Len(rows[j].field) > Len(rows[i].field)
       THEN SubtreeEnd(i, j + 1) ELSE j - 1
\* direct children of row i: rows in its subtree that are not inside another row of the subtree
Children(i) ==
  LET e == SubtreeEnd(i, i + 1)
  IN SelectSeq([j \in 1..(e - i) |-> i + j],
               LAMBDA j : \A k \in (i + 1)..(j - 1) : ~(SubtreeEnd(k, k + 1) >= j))
RECURSIVE Tiles(_, _, _)
Tiles(ch, k, at) ==
  IF k > Len(ch) THEN at
  ELSE IF rows[ch[k]].off = at THEN Tiles(ch, k + 1, at + rows[ch[k]].size) ELSE -1
SchemaTiles ==
  (phase = "done" /\ status = "ok") =>
    \A i \in 1..Len(rows) :
      LET ch == Children(i)
      IN ch # <<>> => Tiles(ch, 1, rows[i].off) = rows[i].off + rows[i].size
TopRows == SelectSeq([j \in 1..Len(rows) |-> j],
                     LAMBDA j : rows[j].field # <<"PADDING">> /\ Len(rows[j].field) = 1)
SchemaTopTiles ==
  (phase = "done" /\ status = "ok" /\ case.mode = "pub") =>
     Tiles(TopRows, 1, 0) = Len(out)

---------------------------------------------------------------------------
(* C03, second half: what an ε-copy deserialization allocates does not     *)
(* depend on the lengths of the sequences it returns as borrowed slices.   *)
RECURSIVE RepSeq(_, _)
RepSeq(s, k) == IF k = 0 THEN <<>> ELSE s \o RepSeq(s, k - 1)
\* Scale(T, v, k, m): the same skeleton with every *borrowed* sequence k times as long
\* (m = "eps": the position is ε-copied; "fs": fully copied, left alone)
RECURSIVE Scale(_, _, _, _)
ScaleFields(fields, vs, k, m) ==
  [i \in 1..Len(fields) |-> Scale(fields[i].ty, vs[i], k, IF m = "eps" /\ fields[i].p > 0 THEN "eps" ELSE "fs")]
Scale(T, v, k, m) ==
  IF m # "eps" THEN v
  ELSE CASE T.k \in {"string", "boxstr"} -> RepSeq(v, k)
         [] T.k \in {"vec", "boxslice"} ->
              IF IsZC(T.elem) THEN RepSeq(v, k) ELSE [i \in 1..Len(v) |-> Scale(T.elem, v[i], k, m)]
         [] T.k = "array" -> IF IsZC(T.elem) THEN v ELSE [i \in 1..Len(v) |-> Scale(T.elem, v[i], k, m)]
         [] T.k \in {"option", "bound"} -> IF Len(v) = 1 THEN v ELSE <<v[1], Scale(T.elem, v[2], k, m)>>
         [] T.k = "cflow" -> <<v[1], Scale(IF v[1] = 0 THEN T.b ELSE T.c, v[2], k, m)>>
         [] T.k = "struct" /\ ~T.zc -> ScaleFields(T.fields, v, k, m)
         [] T.k = "enum" /\ ~T.zc -> <<v[1]>> \o ScaleFields(T.variants[v[1] + 1].fields, Tail(v), k, m)
         [] OTHER -> v
\* the allocations of the ε-copy machine as a pure function: vectors of the deep skeleton (element
\* counts) and the fully copied fields
RECURSIVE AllocPred(_, _, _)
AllocFields(fields, vs, m) ==
  Cat([i \in 1..Len(fields) |-> AllocPred(fields[i].ty, vs[i], IF m = "eps" /\ fields[i].p > 0 THEN "eps" ELSE "fs")])
AllocPred(T, v, m) ==
  CASE T.k \in {"string", "boxstr"} -> IF m = "eps" THEN <<>> ELSE <<Len(v)>>
    [] T.k \in {"vec", "boxslice"} ->
         IF IsZC(T.elem) THEN (IF m = "eps" THEN <<>> ELSE <<Len(v)>>)
         ELSE <<Len(v)>> \o Cat([i \in 1..Len(v) |-> AllocPred(T.elem, v[i], m)])
    [] T.k = "array" -> IF IsZC(T.elem) THEN <<>> ELSE Cat([i \in 1..Len(v) |-> AllocPred(T.elem, v[i], m)])
    [] T.k \in {"option", "bound"} -> IF Len(v) = 1 THEN <<>> ELSE AllocPred(T.elem, v[2], m)
    [] T.k = "cflow" -> AllocPred(IF v[1] = 0 THEN T.b ELSE T.c, v[2], m)
    [] T.k = "struct" /\ ~T.zc -> AllocFields(T.fields, v, m)
    [] T.k = "enum" /\ ~T.zc -> AllocFields(T.variants[v[1] + 1].fields, Tail(v), m)
    [] OTHER -> <<>>
\* the machine allocates exactly the skeleton (the type name of the header is read as a String: one more)
AllocsAreSkeleton ==
  (phase = "done" /\ rstatus = "ok") =>
     allocs = (IF case.mode = "pub" THEN <<case.nameLen>> ELSE <<>>) \o AllocPred(Norm(case.t), case.v, "eps")
\* ... and the skeleton does not change when the borrowed payload is scaled
ScaleInvariant ==
  (phase = "ser" /\ pc = 1) =>
     \A k \in {2, 5} : AllocPred(Norm(case.t), Scale(Norm(case.t), case.v, k, "eps"), "eps")
                        = AllocPred(Norm(case.t), case.v, "eps")

---------------------------------------------------------------------------
(* The behaviour handed to the replay harness (one JSON line per terminal state) *)
Behaviour ==
  [key |-> Key(case.t), rkey |-> Key(Norm(case.t)), v |-> case.v, mode |-> case.mode,
   nameLen |-> case.nameLen, pre |-> case.pre, ann |-> case.ann, base |-> case.base,
   ser |-> [st |-> status, detail |-> detail, out |-> out, pos |-> pos, src |-> src],
   rows |-> rows,
   full |-> fullRes,
   eps |-> [st |-> rstatus, detail |-> rdetail, val |-> IF rstatus = "ok" THEN vals ELSE <<>>,
            rpos |-> rpos, borrows |-> borrows, allocs |-> allocs],
   vscaled |-> IF Scale(Norm(case.t), case.v, 2, "eps") = case.v THEN <<>>
               ELSE <<Scale(Norm(case.t), case.v, 3, "eps"), Scale(Norm(case.t), case.v, 16, "eps")>>]
Emit == phase = "done" => PrintT(ToJson(Behaviour))

=============================================================================
