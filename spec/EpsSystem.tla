----------------------------- MODULE EpsSystem -----------------------------
(***************************************************************************)
(* Composition: a case is serialized by the serializer machine, the bytes  *)
(* the sink accepted are read back by the full-copy machine and then by    *)
(* the ε-copy machine.  The invariants of this module are the design-level *)
(* statements of C01, C02, C03, C06, C07, C18 (and, with faults switched   *)
(* on, C13 / C14); the terminal states are the behaviours replayed into    *)
(* the real library.                                                       *)
(***************************************************************************)
EXTENDS EpsRead, Json

VARIABLES
  case,     \* [t, v, mode, nameLen, pre, ann, base]: the initial choice
  phase,    \* "ser" | "full" | "eps" | "done"
  exp,      \* the reference encoding of the case (EpsFormat), computed once
  fullRes   \* what the full-copy run ended with

sysVars == <<case, phase, exp, fullRes>>
vars == <<serVars, readVars, sysVars>>

\* mode "pub": the public entry points (header + ROOT + flush, stream starts at 0)
\* mode "body": _serialize_inner / _deserialize_*_inner at stream position `pre`
Case(t, v, mode, nameLen, pre, ann, b) ==
  [t |-> t, v |-> v, mode |-> mode, nameLen |-> nameLen, pre |-> pre, ann |-> ann, base |-> b]

ProgramOf(c) ==
  IF c.mode = "pub" THEN SerProgram(c.t, c.v, c.nameLen, c.ann) ELSE BodyProgram(c.t, c.v, c.ann)
StartOf(c) == IF c.mode = "pub" THEN 0 ELSE c.pre
\* the reader's buffer: `pre` filler bytes (skipped by the harness) then the accepted bytes
BufferOf(c, bytes) == IF c.mode = "pub" THEN bytes ELSE Zeros(c.pre) \o bytes
FramesOf(c, m) ==
  IF c.mode = "pub" THEN <<FHdr("magic", Norm(c.t), m)>> ELSE <<FR(Norm(c.t), m)>>

\* the fault-free output: what serializing the corresponding *vector* value gives (C16: slices and
\* exact-size iterators are written as the vector; for a lying iterator: the announced length word
\* followed by the items actually yielded)
ExpectedOut(c) ==
  LET full == IF c.mode = "pub" THEN Stream(Norm(c.t), c.v, c.nameLen) ELSE Encode(Norm(c.t), c.v, c.pre)
  IN full

ReadIdle ==
  /\ input = <<>> /\ rpos = 0 /\ base = 0 /\ rstack = <<>> /\ vals = <<>>
  /\ got = <<>> /\ need = -1 /\ acc = <<>> /\ borrows = <<>> /\ allocs = <<>>
  /\ rstatus = "idle" /\ rdetail = <<>> /\ rfaults = 0

ReadReset(bytes, startPos, b, frames) ==
  /\ input' = bytes /\ rpos' = startPos /\ base' = b /\ rstack' = frames /\ vals' = <<>>
  /\ got' = <<>> /\ need' = -1 /\ acc' = <<>> /\ borrows' = <<>> /\ allocs' = <<>>
  /\ rstatus' = "run" /\ rdetail' = <<>> /\ rfaults' = 0

\* The program and the reference encoding are computed in the first step (phase "load"),
\* not in the initial predicate: TLC enumerates initial states with one thread only.
SysInitRest ==
  /\ SerInitWith(<<>>, StartOf(case))
  /\ ReadIdle
  /\ phase = "load" /\ fullRes = [st |-> "none"]
  /\ exp = <<>>
SysInit(Cases) == case \in Cases /\ SysInitRest

Load ==
  /\ phase = "load"
  /\ prog' = ProgramOf(case) /\ exp' = ExpectedOut(case) /\ phase' = "ser"
  /\ UNCHANGED <<pc, pos, pos0, out, status, detail, padleft, cur, inwrite, rows, path, starts, fake, src, faults, ncalls, fault>>
  /\ UNCHANGED <<readVars, case, fullRes>>

ResRec == [st |-> rstatus, detail |-> rdetail, val |-> IF rstatus = "ok" THEN vals ELSE <<>>,
           rpos |-> rpos, allocs |-> allocs]

SysNext ==
  \/ Load
  \/ /\ phase = "ser" /\ ~SerDone /\ SerNext /\ UNCHANGED <<readVars, sysVars>>
  \/ /\ phase = "ser" /\ SerDone
     /\ IF status = "ok"
        THEN /\ phase' = "full"
             /\ ReadReset(BufferOf(case, out), StartOf(case), 0, FramesOf(case, "full"))
        ELSE phase' = "done" /\ UNCHANGED readVars
     /\ UNCHANGED <<serVars, case, exp, fullRes>>
  \/ /\ phase = "full" /\ ~ReadDone /\ ReadNext /\ UNCHANGED <<serVars, sysVars>>
  \/ /\ phase = "full" /\ ReadDone
     /\ fullRes' = ResRec /\ phase' = "eps"
     /\ ReadReset(BufferOf(case, out), StartOf(case), case.base, FramesOf(case, "eps"))
     /\ UNCHANGED <<serVars, case, exp>>
  \/ /\ phase = "eps" /\ ~ReadDone /\ ReadNext /\ UNCHANGED <<serVars, sysVars>>
  \/ /\ phase = "eps" /\ ReadDone /\ phase' = "done" /\ UNCHANGED <<serVars, readVars, case, exp, fullRes>>

---------------------------------------------------------------------------
(* Invariants.                                                             *)

\* C07: WriterWithPos.pos counts exactly the bytes handed to the sink
PosCounts == (phase # "load" /\ status \in {"run", "ok"} /\ ~inwrite) => pos = pos0 + Len(out)

\* C07: every zero-copy block starts on a multiple of its unit, which is a power of two
\*      no smaller than the native alignment of what it holds
BlockAligned ==
  (phase = "ser" /\ Running /\ ~inwrite /\ CurOp.op = "block" /\ CurOp.unit > 0)
     => pos % CurOp.unit = 0
UnitsSane ==
  (phase = "ser" /\ pc = 1) => \A i \in 1..Len(prog) : prog[i].op \in {"align", "block"} => IsPow2(prog[i].unit)

\* C06: the machine's output is the reference encoding
OutIsEncode == (phase # "ser" /\ status = "ok") => out = exp
\* C13: what the sink accepted is always a prefix of the fault-free output
OutIsPrefix == (phase # "load" /\ case.ann < 0) => Len(out) <= Len(exp) /\ out = SubSeq(exp, 1, Len(out))

\* C01 + C07 (consumed count)
FullRoundTrip ==
  (phase \in {"eps", "done"} /\ fullRes.st # "none")
     => /\ fullRes.st = "ok"
        /\ fullRes.val = <<case.v>>
        /\ fullRes.rpos = Len(BufferOf(case, out))
\* C02 + C07
EpsRoundTrip ==
  (phase = "done" /\ status = "ok" /\ (case.base + 0) % 64 = 0)
     => /\ rstatus = "ok"
        /\ vals = <<case.v>>
        /\ rpos = Len(BufferOf(case, out))

\* C03: every borrowed part is a block the serializer wrote, at its offset, with its length
BorrowsInPlace ==
  (phase = "done" /\ rstatus = "ok" /\ Norm(case.t) = case.t)
     => \A i \in 1..Len(borrows) :
           /\ borrows[i].off + borrows[i].len <= Len(input)
           /\ \E j \in 1..Len(rows) :
                 /\ rows[j].field[Len(rows[j].field)] = "zero"
                 /\ rows[j].off = borrows[i].off
                 /\ rows[j].size = borrows[i].len
           /\ borrows[i].len > 0 => (case.base + borrows[i].off) % borrows[i].al = 0

\* C18: geometry of the recorded schema
RowsWithin == (phase = "done" /\ status = "ok") => \A i \in 1..Len(rows) : rows[i].off >= pos0 /\ rows[i].off + rows[i].size <= pos
RowsPreorder == (phase = "done") => \A i \in 1..Len(rows) - 1 :
   \/ rows[i + 1].off >= rows[i].off
RowsAligned == \A i \in 1..Len(rows) : rows[i].align > 0 => rows[i].off % rows[i].align = 0
PaddingZero == (phase = "done") => \A i \in 1..Len(rows) :
   rows[i].field = <<"PADDING">> =>
      \A j \in 1..rows[i].size : (rows[i].off - pos0 + j) <= Len(out) => out[rows[i].off - pos0 + j] = 0
\* children of a composite row tile it: the rows strictly inside the subtree of row i are the
\* following rows whose path extends row i's path; they must cover [off, off+size) without gaps
IsPrefixOf(p, q) == Len(p) <= Len(q) /\ SubSeq(q, 1, Len(p)) = p
RECURSIVE SubtreeEnd(_, _)
\* index of the last row belonging to the subtree rooted at row i
SubtreeEnd(i, j) ==
  IF j > Len(rows) THEN Len(rows)
  ELSE IF \/ /\ rows[j].field = <<"PADDING">>
             /\ rows[j].off >= rows[i].off /\ rows[j].off + rows[j].size <= rows[i].off + rows[i].size
          \/ /\ rows[j].field # <<"PADDING">> /\ rows[i].field # <<"PADDING">>
             /\ IsPrefixOf(rows[i].field, rows[j].field) /\ Len(rows[j].field) > Len(rows[i].field)
       THEN SubtreeEnd(i, j + 1) ELSE j - 1
\* direct children of row i: rows in its subtree that are not inside another row of the subtree
Children(i) ==
  LET e == SubtreeEnd(i, i + 1)
  IN SelectSeq([j \in 1..(e - i) |-> i + j],
               LAMBDA j : \A k \in (i + 1)..(j - 1) : ~(SubtreeEnd(k, k + 1) >= j))
RECURSIVE Tiles(_, _, _)
Tiles(ch, k, at) ==
  IF k > Len(ch) THEN at
  ELSE IF rows[ch[k]].off = at THEN Tiles(ch, k + 1, at + rows[ch[k]].size) ELSE -1
SchemaTiles ==
  (phase = "done" /\ status = "ok") =>
    \A i \in 1..Len(rows) :
      LET ch == Children(i)
      IN ch # <<>> => Tiles(ch, 1, rows[i].off) = rows[i].off + rows[i].size
TopRows == SelectSeq([j \in 1..Len(rows) |-> j],
                     LAMBDA j : rows[j].field # <<"PADDING">> /\ Len(rows[j].field) = 1)
SchemaTopTiles ==
  (phase = "done" /\ status = "ok" /\ case.mode = "pub") =>
     Tiles(TopRows, 1, 0) = Len(out)

---------------------------------------------------------------------------
(* The behaviour handed to the replay harness (one JSON line per terminal state) *)
Behaviour ==
  [key |-> Key(case.t), rkey |-> Key(Norm(case.t)), v |-> case.v, mode |-> case.mode,
   nameLen |-> case.nameLen, pre |-> case.pre, ann |-> case.ann, base |-> case.base,
   ser |-> [st |-> status, detail |-> detail, out |-> out, pos |-> pos, src |-> src],
   rows |-> rows,
   full |-> fullRes,
   eps |-> [st |-> rstatus, detail |-> rdetail, val |-> IF rstatus = "ok" THEN vals ELSE <<>>,
            rpos |-> rpos, borrows |-> borrows, allocs |-> allocs]]
Emit == phase = "done" => PrintT(ToJson(Behaviour))

=============================================================================
