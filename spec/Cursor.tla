------------------------------- MODULE Cursor -------------------------------
(***************************************************************************)
(* The reference semantics of an in-memory cursor over a growable byte     *)
(* vector (std::io::Cursor<Vec<u8>>), which utils/aligned_cursor.rs must   *)
(* reproduce: write (zero-filling the gap when writing past the end, also  *)
(* for an empty buffer), read, seek from start / current / end,            *)
(* set_position.  Positions and lengths are small naturals here; the       *)
(* 64-bit overflow arms of seek are outside TLC's integers and are         *)
(* compared with std directly by the harness (reported in the evidence).   *)
(***************************************************************************)
EXTENDS Naturals, Integers, Sequences

VARIABLES bytes, pos, last
cvars == <<bytes, pos, last>>

CMax(a, b) == IF a >= b THEN a ELSE b
CMin(a, b) == IF a <= b THEN a ELSE b

Res(op, ok, n, data) == [op |-> op, ok |-> ok, n |-> n, data |-> data]

CInit == bytes = <<>> /\ pos = 0 /\ last = Res("init", TRUE, 0, <<>>)

\* io::Write::write(buf): returns Ok(len(buf))
Write(b) ==
  LET newlen == CMax(Len(bytes), pos + Len(b))
  IN /\ bytes' = [i \in 1..newlen |->
                    IF i > pos /\ i <= pos + Len(b) THEN b[i - pos]
                    ELSE IF i <= Len(bytes) THEN bytes[i] ELSE 0]
     /\ pos' = pos + Len(b)
     /\ last' = Res("write", TRUE, Len(b), <<>>)

\* io::Read::read(buf of n bytes): returns Ok(amt) and the bytes
Read(n) ==
  LET amt == CMin(n, CMax(0, Len(bytes) - pos))
  IN /\ last' = Res("read", TRUE, amt, SubSeq(bytes, pos + 1, pos + amt))
     /\ pos' = pos + amt
     /\ UNCHANGED bytes

SeekTo(op, t) ==
  IF t < 0
  THEN /\ last' = Res(op, FALSE, 0, <<>>) /\ UNCHANGED <<bytes, pos>>
  ELSE /\ pos' = t /\ last' = Res(op, TRUE, t, <<>>) /\ UNCHANGED bytes
SeekStart(n) == SeekTo("seek_start", n)
SeekCurrent(d) == SeekTo("seek_cur", pos + d)
SeekEnd(d) == SeekTo("seek_end", Len(bytes) + d)
SetPosition(p) == pos' = p /\ last' = Res("set_position", TRUE, p, <<>>) /\ UNCHANGED bytes

\* invariants of the reference semantics itself
TypeOK == pos >= 0 /\ \A i \in 1..Len(bytes) : bytes[i] \in 0..255
=============================================================================
