------------------------------ MODULE Clients ------------------------------
(***************************************************************************)
(* Safe client programs of a MemCase and of ε-copy results (C09, lifetime   *)
(* part).  A program is a straight-line word over the operations below.     *)
(* The model tracks, for every reference the program creates, what the      *)
(* *type system* knows about it (`root`: borrowed from the case binding /   *)
(* borrowed from the buffer binding / carries a 'static lifetime) and what  *)
(* it really points into (`into`: the structure stored in the case, the     *)
(* backing region, the byte buffer).                                        *)
(*                                                                         *)
(* Accept(prog): the borrow checker accepts the program, as it follows from *)
(* the declared signatures: MemCase<S>: Deref<Target = S> / AsRef<S>, the   *)
(* loaders return MemCase<DeserType<'a>> for a caller-chosen 'a (hence      *)
(* 'static is allowed), deserialize_eps(&'a [u8]) -> DeserType<'a>.         *)
(* Safe(prog): no reference is used after what it points into was released. *)
(* The property is Accept => Safe; every enumerated program becomes a Rust  *)
(* probe whose compile outcome is compared with Accept, and accepted        *)
(* probes are run.                                                          *)
(***************************************************************************)
EXTENDS Naturals, Sequences, FiniteSets, TLC

CONSTANTS MaxLen

\* operations
\*  <<"deref">>      r = &*case            (reference to the structure, borrowed from `case`)
\*  <<"asref">>      r = case.as_ref()
\*  <<"copyout">>    s = *r                (the structure is a `&'static [T]`: copying it out of &S keeps 'static)
\*  <<"field">>      s = r.data            (a `&'static [T]`-typed field of a derived structure, same thing)
\*  <<"move">>       case2 = case          (the case is moved: old binding dead)
\*  <<"dropcase">>   drop(case)
\*  <<"use_r">>      read through r        <<"use_s">>  read through s
\* ε-copy family (buffer instead of case)
\*  <<"eps">>        e = T::deserialize_eps(&buf)   (borrows buf)
\*  <<"ecopy">>      s = *e / e.field               (still tied to buf's lifetime)
\*  <<"dropbuf">>    drop(buf)     <<"movebuf">> buf2 = buf    <<"use_e">>   <<"use_s">>
MemOps == {<<"deref">>, <<"asref">>, <<"copyout">>, <<"field">>, <<"move">>, <<"dropcase">>, <<"use_r">>, <<"use_s">>}
EpsOps == {<<"eps">>, <<"ecopy">>, <<"dropbuf">>, <<"movebuf">>, <<"use_e">>, <<"use_s">>}

VARIABLES family, prog, caseLive, bufLive, released, hasR, hasS, sStatic, hasE, accepted, safe
cvars == <<family, prog, caseLive, bufLive, released, hasR, hasS, sStatic, hasE, accepted, safe>>

CInit ==
  /\ family \in {"mem", "eps"} /\ prog = <<>>
  /\ caseLive = TRUE /\ bufLive = TRUE /\ released = FALSE
  /\ hasR = FALSE /\ hasS = FALSE /\ sStatic = FALSE /\ hasE = FALSE
  /\ accepted = TRUE /\ safe = TRUE

\* the borrow checker: a later *use* of a reference borrowed from a binding conflicts with an earlier
\* move / drop of that binding
Do(op) ==
  /\ Len(prog) < MaxLen /\ accepted
  /\ prog' = Append(prog, op)
  /\ CASE op[1] \in {"deref", "asref"} ->
            /\ family = "mem" /\ caseLive
            /\ hasR' = TRUE
            /\ UNCHANGED <<family, caseLive, bufLive, released, hasS, sStatic, hasE, accepted, safe>>
       [] op[1] \in {"copyout", "field"} ->
            \* copies a `&'static [T]` out of `&S`: the result is NOT tied to the borrow of the case
            /\ family = "mem" /\ hasR
            /\ hasS' = TRUE /\ sStatic' = TRUE
            \* reading through r is a use of the borrow of `case`: rejected once the case is gone
            /\ accepted' = caseLive
            /\ UNCHANGED <<family, caseLive, bufLive, released, hasR, hasE, safe>>
       [] op[1] = "move" ->
            \* moving the case invalidates borrows of the old binding; the region itself does not move
            /\ family = "mem" /\ caseLive
            /\ hasR' = FALSE
            /\ UNCHANGED <<family, caseLive, bufLive, released, hasS, sStatic, hasE, accepted, safe>>
       [] op[1] = "dropcase" ->
            /\ family = "mem" /\ caseLive
            /\ caseLive' = FALSE /\ released' = TRUE
            /\ UNCHANGED <<family, bufLive, hasR, hasS, sStatic, hasE, accepted, safe>>
       [] op[1] = "use_r" ->
            /\ family = "mem" /\ hasR
            \* using a borrow of `case` after `case` was dropped: rejected (E0505)
            /\ accepted' = caseLive
            /\ safe' = (safe /\ ~released)
            /\ UNCHANGED <<family, caseLive, bufLive, released, hasR, hasS, sStatic, hasE>>
       [] op[1] = "use_s" ->
            /\ hasS
            \* a 'static copy is accepted whatever happened to the case; a buffer-tied copy is not
            /\ accepted' = (sStatic \/ bufLive)
            /\ safe' = (safe /\ ~released)
            /\ UNCHANGED <<family, caseLive, bufLive, released, hasR, hasS, sStatic, hasE>>
       [] op[1] = "eps" ->
            /\ family = "eps" /\ bufLive
            /\ hasE' = TRUE
            /\ UNCHANGED <<family, caseLive, bufLive, released, hasR, hasS, sStatic, accepted, safe>>
       [] op[1] = "ecopy" ->
            /\ family = "eps" /\ hasE
            /\ hasS' = TRUE /\ sStatic' = FALSE
            /\ accepted' = bufLive
            /\ UNCHANGED <<family, caseLive, bufLive, released, hasR, hasE, safe>>
       [] op[1] \in {"dropbuf", "movebuf"} ->
            /\ family = "eps" /\ bufLive
            /\ bufLive' = FALSE /\ released' = (op[1] = "dropbuf")
            /\ UNCHANGED <<family, caseLive, hasR, hasS, sStatic, hasE, accepted, safe>>
       [] op[1] = "use_e" ->
            /\ family = "eps" /\ hasE
            /\ accepted' = bufLive
            /\ safe' = (safe /\ ~released)
            /\ UNCHANGED <<family, caseLive, bufLive, released, hasR, hasS, sStatic, hasE>>

CNext == \E op \in (IF family = "mem" THEN MemOps ELSE EpsOps) : Do(op)

\* C09: whatever the compiler accepts never uses released memory
AcceptedIsSafe == accepted => safe
=============================================================================
