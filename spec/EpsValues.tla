----------------------------- MODULE EpsValues -----------------------------
(***************************************************************************)
(* Small value domains for exhaustive enumeration.  Values(T) is a         *)
(* *sequence* (ordered, duplicate-free) so that products can be taken      *)
(* diagonally: growth is linear in nesting depth.  The randomized Rust     *)
(* drivers cover large and random values; their traces are validated      *)
(* against the same specification.                                         *)
(***************************************************************************)
EXTENDS EpsFormat

CONSTANT VLevel   \* 1 = quick (2-3 values per primitive, seq lengths 0..2), 2 = thorough

Rep(b, n) == [i \in 1..n |-> b]
\* little-endian placement of the sign/top byte
TopByte(n, top, rest) == [i \in 1..n |-> IF i = n THEN top ELSE rest]

PrimValues(name) ==
  LET n == PrimSize(name)
      lo == Rep(0, n)
      one == [i \in 1..n |-> IF i = 1 THEN 1 ELSE 0]
      hi == Rep(255, n)
      pat == [i \in 1..n |-> (160 + i) % 256]
      smax == TopByte(n, 127, 255)
      smin == TopByte(n, 128, 0)
  IN CASE name = "bool" -> << <<0>>, <<1>> >>
       [] name = "char" ->
            IF VLevel = 1 THEN << <<97, 0, 0, 0>>, <<37, 246, 1, 0>> >>      \* 'a', U+1F625
            ELSE << <<0,0,0,0>>, <<97,0,0,0>>, <<233,0,0,0>>, <<37,246,1,0>>, <<255,255,16,0>>, <<255,215,0,0>> >>
       [] name \in {"f32"} ->
            IF VLevel = 1 THEN << <<0,0,192,63>>, <<1,0,192,127>> >>          \* 1.5, NaN with payload
            ELSE << lo, <<0,0,0,128>>, <<0,0,192,63>>, <<0,0,128,127>>, <<1,0,192,127>>, <<1,0,128,127>> >>
       [] name \in {"f64"} ->
            IF VLevel = 1 THEN << <<0,0,0,0,0,0,248,63>>, <<1,0,0,0,0,0,248,127>> >>
            ELSE << lo, <<0,0,0,0,0,0,0,128>>, <<0,0,0,0,0,0,248,63>>, <<0,0,0,0,0,0,240,127>>,
                    <<1,0,0,0,0,0,248,127>>, <<1,0,0,0,0,0,240,127>> >>
       [] name \in {"NonZeroU8", "NonZeroU16", "NonZeroU32", "NonZeroU64", "NonZeroU128", "NonZeroUsize"} ->
            IF VLevel = 1 THEN << one, hi >> ELSE << one, hi, pat >>
       [] name \in {"NonZeroI8", "NonZeroI16", "NonZeroI32", "NonZeroI64", "NonZeroI128", "NonZeroIsize"} ->
            IF VLevel = 1 THEN << one, smin >> ELSE << one, smin, smax, hi >>
       [] name \in {"i8", "i16", "i32", "i64", "i128", "isize"} ->
            IF VLevel = 1 THEN << pat, smin >> ELSE << lo, one, smin, smax, hi, pat >>
       [] OTHER ->
            IF VLevel = 1 THEN << pat, hi >> ELSE << lo, one, hi, pat >>

StrValues ==
  IF VLevel = 1 THEN << <<>>, <<104, 195, 169, 240, 159, 148, 165>> >>       \* "", "hé🔥"
  ELSE << <<>>, <<97>>, <<104, 195, 169, 108, 108, 111, 240, 159, 148, 165>> >>

\* i-th element cyclically
Cyc(s, i) == s[((i - 1) % Len(s)) + 1]
MaxLenOf(ss) == MaxSeq([i \in 1..Len(ss) |-> Len(ss[i])])

\* sequences of items drawn from vs: <<>>, singletons, pairs (a, next a), and at level 2 one triple
SeqValues(vs) ==
  IF vs = <<>> THEN << <<>> >>
  ELSE << <<>> >>
       \o [i \in 1..Len(vs) |-> <<vs[i]>>]
       \o [i \in 1..Len(vs) |-> <<vs[i], Cyc(vs, i + 1)>>]
       \o (IF VLevel >= 2 THEN << <<vs[1], Cyc(vs, 2), Cyc(vs, 3)>> >> ELSE <<>>)

\* fixed-length n-tuples drawn diagonally
NTuples(vs, n) ==
  IF n = 0 THEN << <<>> >>
  ELSE [i \in 1..Len(vs) |-> [j \in 1..n |-> Cyc(vs, i + j - 1)]]

RECURSIVE Values(_)
\* diagonal product over a field list
FieldValues(fields) ==
  IF fields = <<>> THEN << <<>> >>
  ELSE LET fv == [i \in 1..Len(fields) |-> Values(fields[i].ty)]
           m == MaxLenOf(fv)
       \* shifted diagonal: field i takes its (r + i - 1)-th value, so that empty and non-empty
       \* values of neighbouring fields get combined
       IN [r \in 1..m |-> [i \in 1..Len(fields) |-> Cyc(fv[i], r + i - 1)]]

Values(T) ==
  CASE T.k = "prim" -> PrimValues(T.name)
    [] T.k = "hw" -> << <<>> >>
    [] T.k \in {"unit", "rangefull", "phantom"} -> << <<>> >>
    [] T.k \in {"string", "boxstr"} -> StrValues
    [] T.k \in SeqKinds -> LET ev == Values(T.elem) IN SeqValues(ev)
    [] T.k \in {"array", "tuple"} -> LET ev == Values(T.elem) IN NTuples(ev, T.n)
    [] T.k = "option" ->
         LET ev == Values(T.elem) IN << <<0>> >> \o [i \in 1..Len(ev) |-> <<1, ev[i]>>]
    [] T.k = "bound" ->
         LET ev == Values(T.elem)
         IN << <<0>> >> \o [i \in 1..Len(ev) |-> <<1, ev[i]>>] \o [i \in 1..Len(ev) |-> <<2, ev[i]>>]
    [] T.k = "cflow" ->
         LET bv == Values(T.b)
             cv == Values(T.c)
         IN [i \in 1..Len(bv) |-> <<0, bv[i]>>] \o [i \in 1..Len(cv) |-> <<1, cv[i]>>]
    [] T.k = "range" -> LET ev == Values(T.elem) IN NTuples(ev, RangeArity(T.rk))
    [] T.k = "struct" -> FieldValues(T.fields)
    [] T.k = "enum" ->
         Cat([i \in 1..Len(T.variants) |->
               LET fv == FieldValues(T.variants[i].fields)
               IN [r \in 1..Len(fv) |-> <<i - 1>> \o fv[r]]])

ToSet(s) == {s[i] : i \in 1..Len(s)}

=============================================================================
