------------------------------- MODULE Corpus -------------------------------
(***************************************************************************)
(* C06, histories: every file of the corpus written by the *pinned* build   *)
(* (corpus/corpus.ndjson.gz: type descriptor, abstract value, bytes) is a   *)
(* stream of the published format for that (type, value), and so is what    *)
(* the current build writes for the same value.  One step per corpus entry; *)
(* the specification's reference encoder decides (hash words and type-name  *)
(* bytes are symbolic here and compared by the harness; struct-internal     *)
(* padding is don't-care).                                                  *)
(***************************************************************************)
EXTENDS EpsFormat, Json, IOUtils, TLC

Rec == ndJsonDeserialize(IOEnv.TRACE)
VARIABLE l

Conforms(spec, bytes) ==
  Len(spec) = Len(bytes) /\ \A i \in 1..Len(spec) : spec[i] > 255 \/ spec[i] = bytes[i]

TInit == l = 1
TNext ==
  /\ l <= Len(Rec)
  /\ LET e == Rec[l]
         s == Stream(Norm(e.t), e.v, e.nameLen)
     IN Conforms(s, e.bytes) /\ Conforms(s, e.now)
  /\ l' = l + 1

Accepted ==
  LET d == TLCGet("stats").diameter
  IN IF d - 1 = Len(Rec) THEN TRUE
     ELSE Print(<<"TRACE-REJECTED at line", d, IF d <= Len(Rec) THEN [key |-> Rec[d].key, v |-> Rec[d].v] ELSE "eof">>, FALSE)
====
