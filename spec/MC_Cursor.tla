----------------------------- MODULE MC_Cursor -----------------------------
(* All histories up to Depth over a small alphabet; each complete history   *)
(* is printed with the result, contents, length and position after every   *)
(* operation and replayed on AlignedCursor<A16>, AlignedCursor<A64> and     *)
(* std::io::Cursor<Vec<u8>>.                                                *)
EXTENDS Cursor, TLC, Json, FiniteSets

CONSTANTS Depth, Rich

VARIABLES hist
allv == <<cvars, hist>>

Bufs == IF Rich THEN {<<>>, <<1>>, <<2, 3, 4>>, <<5, 6, 7, 8, 9, 10, 11, 12, 13, 14, 15, 16, 17, 18, 19, 20, 21>>}
        ELSE {<<>>, <<1>>, <<2, 3, 4>>}
ReadLens == IF Rich THEN {0, 1, 4, 40} ELSE {0, 2}
Starts == IF Rich THEN {0, 1, 5, 17, 40} ELSE {0, 5}
Deltas == IF Rich THEN {-40, -3, -1, 0, 2, 19} ELSE {-3, 0, 2}
Positions == IF Rich THEN {0, 3, 16, 33} ELSE {3, 16}

Step(opname, arg) == hist' = Append(hist, [op |-> opname, arg |-> arg, res |-> last', len |-> Len(bytes'), pos |-> pos', bytes |-> bytes'])

Init == CInit /\ hist = <<>>
Next ==
  /\ Len(hist) < Depth
  /\ \/ \E b \in Bufs : Write(b) /\ Step("write", b)
     \/ \E n \in ReadLens : Read(n) /\ Step("read", n)
     \/ \E n \in Starts : SeekStart(n) /\ Step("seek_start", n)
     \/ \E d \in Deltas : SeekCurrent(d) /\ Step("seek_cur", d)
     \/ \E d \in Deltas : SeekEnd(d) /\ Step("seek_end", d)
     \/ \E p \in Positions : SetPosition(p) /\ Step("set_position", p)

\* design-level facts about the reference semantics
LenMonotone == \A i \in 1..(Len(hist) - 1) : hist[i + 1].len >= hist[i].len
GapZero == \A i \in 1..Len(hist) :
   (hist[i].op = "write" /\ i > 1 /\ hist[i].pos - Len(hist[i].arg) > hist[i - 1].len)
     => \A j \in (hist[i - 1].len + 1)..(hist[i].pos - Len(hist[i].arg)) : hist[i].bytes[j] = 0
ReadInBounds == \A i \in 1..Len(hist) : hist[i].op = "read" => hist[i].res.n <= hist[i].arg

EmitH == Len(hist) = Depth => PrintT(ToJson(hist))
====
