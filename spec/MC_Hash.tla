------------------------------ MODULE MC_Hash ------------------------------
(***************************************************************************)
(* C04 on the recipes: the pair (type-hash preimage, align-hash preimage)   *)
(* is injective up to SameStructure over the universe that contains, for    *)
(* every definition, its near-miss mutants; and the documented              *)
(* interchangeable kinds (slice reference, exact-size iterator, vector)     *)
(* share both preimages.  One state per type T; the invariant compares T    *)
(* with every U.                                                            *)
(***************************************************************************)
EXTENDS Derive, Json, TLC

CONSTANT TypeSet
VARIABLES t, ph

TS == HashTypes(TypesOf(TypeSet) \cup SerOnlyOf(TypeSet))
\* <<key, type-hash preimage, align-hash preimage, erased structure>> of every type, computed once
\* (a set comprehension is evaluated eagerly; a function [x \in TS |-> ...] would be re-evaluated
\* at every application)
Pre == {<<Key(x), TypeHashOf(x), AlignHashOf(x), Erase(Norm(x))>> : x \in TS}

\* the comparison is done in the successor state (phase 1): TLC evaluates invariants of initial
\* states with one thread only
Init == t \in Pre /\ ph = 0
Next == ph = 0 /\ ph' = 1 /\ UNCHANGED t

Confusable(a, b) == a[2] = b[2] /\ a[3] = b[3]
\* no two structurally different types share both hashes
Injective == ph = 1 => \A u \in Pre : Confusable(t, u) => t[4] = u[4]
\* the converse for what is documented as interchangeable on disk
Interchangeable == ph = 1 => \A u \in Pre : t[4] = u[4] => Confusable(t, u)

\* every confusable pair of structurally different types, for the replay (design-level counterexamples)
EmitConfusions ==
  ph = 1 => \A u \in Pre : (Confusable(t, u) /\ t[4] # u[4]) => PrintT(ToJson([a |-> t[1], b |-> u[1]]))
====
