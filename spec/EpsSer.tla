------------------------------ MODULE EpsSer ------------------------------
(***************************************************************************)
(* The serializer as a state machine.                                      *)
(*                                                                         *)
(* SerProgram(T, v, ...) flattens `Serialize::serialize_on_field_write`    *)
(* into the sequence of calls it makes on its WriteWithNames backend, one  *)
(* op per call, transcribing every `_serialize_inner` of impls/*.rs, the   *)
(* helpers of ser/helpers.rs and the derive macro:                         *)
(*   enter(name)/exit   WriteWithNames::write(name, value) around a value  *)
(*   raw(bytes)         WriteNoStd::write_all of a primitive               *)
(*   align(unit)        WriteWithNames::align::<V>()  (one write_all(&[0]) *)
(*                      per padding byte)                                  *)
(*   block(unit,bytes)  WriteWithNames::write_bytes::<V>(bytes)            *)
(*   zccheck(ok)        helpers::check_zero_copy::<V>() (panics if !ok)    *)
(*   fake / forget      impls/slice.rs: aliasing Vec created / forgotten   *)
(*   itercheck(a,e)     impls/iter.rs: count check after the items         *)
(*   flush              WriteNoStd::flush                                  *)
(* The machine executes the program against a sink that can fail, split    *)
(* and retry (std's write_all loop is part of the model), and, in schema   *)
(* mode, builds the rows exactly as SchemaWriter does.                     *)
(***************************************************************************)
EXTENDS Universe

CONSTANTS BugSliceFree   \* TRUE = pinned-tree behaviour of impls/slice.rs (defect #5)

Op(o, n, u, bs, a, b) == [op |-> o, name |-> n, unit |-> u, bytes |-> bs, a |-> a, b |-> b]
OEnter(n)      == Op("enter", n, 0, <<>>, 0, 0)
OEnterTag(n, nvalid) == Op("enter", n, 0, <<>>, nvalid, 0)   \* a tag field: nvalid = number of tag values a variant writes
OExit          == Op("exit", "", 0, <<>>, 0, 0)
ORaw(bs)       == Op("raw", "", 0, bs, 0, 0)
OAlign(u)      == Op("align", "", u, <<>>, 0, 0)
OBlock(u, bs)  == Op("block", "", u, bs, 0, 0)
OZc(ok)        == Op("zccheck", "", 0, <<>>, IF ok THEN 1 ELSE 0, 0)
OFake          == Op("fake", "", 0, <<>>, 0, 0)
OForget        == Op("forget", "", 0, <<>>, 0, 0)
OIter(act, ex) == Op("itercheck", "", 0, <<>>, act, ex)
OFlush         == Op("flush", "", 0, <<>>, 0, 0)

UsizeT == Prim("usize")

RECURSIVE Inner(_, _, _), WSeq(_, _, _, _), WFields(_, _, _, _)
\* backend.write(name, value)
W(name, T, v, ann) == <<OEnter(name)>> \o Inner(T, v, ann) \o <<OExit>>
\* backend.write("Tag" | "tag", &tag): remembered as a tag site with its number of valid values
WTag(name, T, v, nvalid) == <<OEnterTag(name, nvalid)>> \o Inner(T, v, -1) \o <<OExit>>
\* backend.write("item", x) for each item
WSeq(name, T, vs, i) ==
  IF i > Len(vs) THEN <<>> ELSE W(name, T, vs[i], -1) \o WSeq(name, T, vs, i + 1)
\* one write per field, named by fname(i)
WFields(fields, vs, prefix, i) ==
  IF i > Len(fields) THEN <<>>
  ELSE W(IF prefix = "" THEN fields[i].name ELSE prefix \o fields[i].name,
         fields[i].ty, vs[i], -1)
       \o WFields(fields, vs, prefix, i + 1)

\* ser/helpers.rs serialize_zero
SerZero(T, v) == <<OZc(IsZCConst(T)), OAlign(Unit(T)), OBlock(Unit(T), MemRepr(T, v))>>
\* ser/helpers.rs serialize_slice_zero
SliceZero(E, vs) ==
  <<OZc(IsZCConst(E))>> \o W("len", UsizeT, NE(Len(vs), UsizeBytes), -1)
  \o <<OAlign(Unit(E)), OBlock(Unit(E), Cat([i \in 1..Len(vs) |-> MemRepr(E, vs[i])]))>>
\* ser/helpers.rs serialize_slice_deep
SliceDeep(E, vs) == W("len", UsizeT, NE(Len(vs), UsizeBytes), -1) \o WSeq("item", E, vs, 1)

Inner(T, v, ann) ==
  CASE T.k = "prim" -> <<ORaw(v)>>
    [] T.k = "hw" -> SerZero(T, v)       \* the hand-written impl calls serialize_zero, as a derived one would
    [] T.k \in {"unit", "rangefull", "phantom"} -> <<>>
    [] T.k \in {"string", "boxstr"} -> SliceZero(U8, [i \in 1..Len(v) |-> <<v[i]>>])
    [] T.k \in {"vec", "boxslice"} ->
         IF IsZC(T.elem) THEN SliceZero(T.elem, v) ELSE SliceDeep(T.elem, v)
    [] T.k = "slice" ->
         \* impls/slice.rs: fake Vec aliasing the slice, serialized, then forgotten
         <<OFake>> \o (IF IsZC(T.elem) THEN SliceZero(T.elem, v) ELSE SliceDeep(T.elem, v)) \o <<OForget>>
    [] T.k = "seriter" ->
         \* impls/iter.rs (zero-copy items only: SerIter::new requires T: ZeroCopy)
         LET announced == IF ann < 0 THEN Len(v) ELSE ann
         IN <<OZc(IsZCConst(T.elem))>> \o W("len", UsizeT, NE(announced, UsizeBytes), -1)
            \o <<OAlign(Unit(T.elem))>>
            \o [i \in 1..Len(v) |-> OBlock(Unit(T.elem), MemRepr(T.elem, v[i]))]
            \o <<OIter(Len(v), announced)>>
    [] T.k = "array" ->
         IF IsZC(T.elem) THEN SerZero(T, v) ELSE WSeq("item", T.elem, v, 1)
    [] T.k = "tuple" -> SerZero(T, v)
    [] T.k = "option" ->
         IF v[1] = 0 THEN WTag("Tag", U8, <<0>>, 2)
         ELSE WTag("Tag", U8, <<1>>, 2) \o W("Some", T.elem, v[2], -1)
    [] T.k = "bound" ->
         IF v[1] = 0 THEN WTag("Tag", U8, <<0>>, 3)
         ELSE WTag("Tag", U8, <<v[1]>>, 3)
              \o W(IF v[1] = 1 THEN "Included" ELSE "Excluded", T.elem, v[2], -1)
    [] T.k = "cflow" ->
         IF v[1] = 0 THEN WTag("Tag", U8, <<0>>, 2) \o W("Break", T.b, v[2], -1)
         ELSE WTag("Tag", U8, <<1>>, 2) \o W("Continue", T.c, v[2], -1)
    [] T.k = "range" ->
         CASE T.rk = "Range" -> W("start", T.elem, v[1], -1) \o W("end", T.elem, v[2], -1)
           [] T.rk = "RangeFrom" -> W("start", T.elem, v[1], -1)
           [] T.rk = "RangeInclusive" ->
                W("start", T.elem, v[1], -1) \o W("end", T.elem, v[2], -1)
                \o W("exhausted", BoolT, <<0>>, -1)
           [] OTHER -> W("end", T.elem, v[1], -1)
    [] T.k = "struct" ->
         IF T.zc THEN SerZero(T, v)
         ELSE \* a parameter-typed field may hold a lying iterator: `ann` is passed to it
              Cat([i \in 1..Len(T.fields) |->
                    W(T.fields[i].name, T.fields[i].ty, v[i],
                      IF T.fields[i].p > 0 THEN ann ELSE -1)])
    [] T.k = "enum" ->
         IF T.zc THEN SerZero(T, v)
         ELSE LET var == T.variants[v[1] + 1]
              IN WTag("tag", UsizeT, NE(v[1], UsizeBytes), Len(T.variants))
                 \o WFields(var.fields, Tail(v), IF var.vk = "tuple" THEN "v" ELSE "", 1)

U64T == Prim("u64")
HeaderOps(nameLen) ==
  W("MAGIC", U64T, MagicBytes, -1)
  \o W("VERSION_MAJOR", U16, NE(VersionMajor, 2), -1)
  \o W("VERSION_MINOR", U16, NE(VersionMinor, 2), -1)
  \o W("USIZE_SIZE", U8, <<UsizeBytes>>, -1)
  \o W("TYPE_HASH", U64T, [i \in 1..8 |-> TH0 + i], -1)
  \o W("REPR_HASH", U64T, [i \in 1..8 |-> AH0 + i], -1)
  \o W("TYPE_NAME", StringT, [i \in 1..nameLen |-> TN], -1)

\* serialize_on_field_write: header, ROOT, flush
SerProgram(T, v, nameLen, ann) ==
  HeaderOps(nameLen) \o W("ROOT", T, v, ann) \o <<OFlush>>
\* only the value, for runs that start at an arbitrary stream position
BodyProgram(T, v, ann) == Inner(T, v, ann)

---------------------------------------------------------------------------
(* Schema rows (SchemaWriter).                                             *)
Row(field, off, size, align) == [field |-> field, off |-> off, size |-> size, align |-> align, nv |-> 0]
TagRow(field, off, size, nv) == [field |-> field, off |-> off, size |-> size, align |-> 0, nv |-> nv]
InsertAt(s, i, e) == SubSeq(s, 1, i - 1) \o <<e>> \o SubSeq(s, i, Len(s))

---------------------------------------------------------------------------
VARIABLES
  prog,      \* the program being executed (constant during a run)
  pc,        \* next op
  pos,       \* WriterWithPos.pos
  pos0,      \* stream position the run started at (constant during a run)
  out,       \* bytes the sink accepted so far
  status,    \* "run" | "ok" | "WriteError" | "LengthMismatch" | "panic"
  detail,    \* payload of the final status (<<actual, expected>>, panic reason)
  padleft,   \* padding bytes of the current align still to be written (-1: not in align)
  cur,       \* bytes of the current write_all still to be offered to the sink (std grain)
  inwrite,   \* TRUE while a write_all is in progress (std grain)
  rows, path, starts,   \* SchemaWriter state
  fake,      \* number of live aliasing vectors (impls/slice.rs)
  src,       \* "intact" | "freed": the caller's borrowed memory
  faults,    \* number of fault/short/interrupt decisions taken (bounds the sink's nondeterminism)
  ncalls,    \* number of write_all calls made so far (history: identifies the call a fault hit)
  fault      \* history: <<"none">> | <<"reject", call index, bytes of it accepted>> | <<"flush">> | <<"std">>

serVars == <<prog, pc, pos, pos0, out, status, detail, padleft, cur, inwrite, rows, path, starts, fake, src, faults, ncalls, fault>>

CONSTANTS
  SinkGrain,    \* "call": each write_all is atomic (accept all | fail after a prefix)
                \* "std" : std::io::Write::write_all loop over write() calls
  SinkFaulty,   \* TRUE: the sink may fail / shorten / interrupt; FALSE: perfect sink
  MaxFaults     \* bound on short/interrupt decisions per run ("std" grain)

SerInitWith(p, startPos) ==
  /\ prog = p /\ pc = 1 /\ pos = startPos /\ pos0 = startPos /\ out = <<>> /\ status = "run" /\ detail = <<>>
  /\ padleft = -1 /\ cur = <<>> /\ inwrite = FALSE
  /\ rows = <<>> /\ path = <<>> /\ starts = <<>> /\ fake = 0 /\ src = "intact" /\ faults = 0
  /\ ncalls = 0 /\ fault = <<"none">>

Running == status = "run" /\ pc <= Len(prog)
CurOp == prog[pc]

\* the error path: `?` unwinds through every live aliasing vector (defect #5 frees the source)
Fail(st, d) ==
  /\ status' = st /\ detail' = d
  /\ src' = IF fake > 0 /\ BugSliceFree THEN "freed" ELSE src

(* ---- the sink: one write_all(buf) call ---- *)
\* "call" grain: accepted entirely
CallAccept(buf, nextpc, nextpad) ==
  /\ out' = out \o buf /\ pos' = pos + Len(buf)
  /\ pc' = nextpc /\ padleft' = nextpad /\ ncalls' = ncalls + 1
  /\ UNCHANGED <<status, detail, src, cur, inwrite, faults, fault>>
\* "call" grain: the underlying writer took k < Len(buf) bytes and then failed
\* (for an empty buffer a WriteNoStd sink can still reject the call)
CallReject(buf, k) ==
  /\ SinkFaulty
  /\ out' = out \o SubSeq(buf, 1, k)
  /\ Fail("WriteError", <<>>)
  /\ fault' = <<"reject", ncalls, k>> /\ ncalls' = ncalls + 1
  /\ UNCHANGED <<pos, pc, padleft, cur, inwrite, faults>>

\* the write_all call made by the current op, and where to go after it
WriteAll(buf, nextpc, nextpad) ==
  IF SinkGrain = "call"
  THEN \/ CallAccept(buf, nextpc, nextpad)
       \/ \E k \in 0..Max(0, Len(buf) - 1) : CallReject(buf, k)
  ELSE \* std grain: start the loop; an empty buffer makes no write() call at all
       IF buf = <<>>
       THEN /\ pc' = nextpc /\ padleft' = nextpad /\ ncalls' = ncalls + 1
            /\ UNCHANGED <<out, pos, status, detail, src, cur, inwrite, faults, fault>>
       ELSE /\ cur' = buf /\ inwrite' = TRUE /\ ncalls' = ncalls + 1
            /\ UNCHANGED <<out, pos, status, detail, src, pc, padleft, faults, fault>>

\* where the op in progress continues after its write_all completes
AfterWrite ==
  IF CurOp.op = "align"
  THEN IF padleft - 1 = 0 THEN <<pc + 1, -1>> ELSE <<pc, padleft - 1>>
  ELSE <<pc + 1, -1>>

(* std::io::Write::write_all: loop { match write(buf) { Ok(0) => WriteZero, Ok(n) => buf = &buf[n..],
   Err(Interrupted) => continue, Err(e) => return Err(e) } } *)
StdTake(n) ==
  /\ inwrite /\ status = "run" /\ n \in 1..Len(cur)
  /\ (n < Len(cur) => (SinkFaulty /\ faults < MaxFaults))
  /\ out' = out \o SubSeq(cur, 1, n)
  /\ faults' = IF n < Len(cur) THEN faults + 1 ELSE faults
  /\ IF n = Len(cur)
     THEN /\ cur' = <<>> /\ inwrite' = FALSE
          /\ pos' = pos0 + Len(out')       \* WriterWithPos adds buf.len() once write_all returns Ok
          /\ pc' = AfterWrite[1] /\ padleft' = AfterWrite[2]
     ELSE /\ cur' = SubSeq(cur, n + 1, Len(cur)) /\ UNCHANGED <<inwrite, pos, pc, padleft>>
  /\ UNCHANGED <<status, detail, src, ncalls, fault>>
StdInterrupted ==
  /\ inwrite /\ status = "run" /\ SinkFaulty /\ faults < MaxFaults
  /\ faults' = faults + 1
  /\ UNCHANGED <<out, pos, pc, padleft, cur, inwrite, status, detail, src, ncalls, fault>>
StdZero ==    \* write() returned Ok(0): ErrorKind::WriteZero
  /\ inwrite /\ status = "run" /\ SinkFaulty
  /\ Fail("WriteError", <<>>) /\ inwrite' = FALSE /\ fault' = <<"std">>
  /\ UNCHANGED <<out, pos, pc, padleft, cur, faults, ncalls>>
StdError ==   \* write() returned another error
  /\ inwrite /\ status = "run" /\ SinkFaulty
  /\ Fail("WriteError", <<>>) /\ inwrite' = FALSE /\ fault' = <<"std">>
  /\ UNCHANGED <<out, pos, pc, padleft, cur, faults, ncalls>>

(* ---- one action per WriteWithNames / WriteNoStd call ---- *)
DoEnter ==
  /\ Running /\ ~inwrite /\ CurOp.op = "enter"
  /\ path' = Append(path, CurOp.name)
  /\ starts' = Append(starts, <<pos, Len(rows), CurOp.a>>)
  /\ pc' = pc + 1
  /\ UNCHANGED <<prog, pos0, pos, out, status, detail, padleft, cur, inwrite, rows, fake, src, faults, ncalls, fault>>

DoExit ==
  /\ Running /\ ~inwrite /\ CurOp.op = "exit"
  /\ LET st == starts[Len(starts)]
     IN rows' = InsertAt(rows, st[2] + 1, TagRow(path, st[1], pos - st[1], st[3]))
  /\ path' = SubSeq(path, 1, Len(path) - 1)
  /\ starts' = SubSeq(starts, 1, Len(starts) - 1)
  /\ pc' = pc + 1
  /\ UNCHANGED <<prog, pos0, pos, out, status, detail, padleft, cur, inwrite, fake, src, faults, ncalls, fault>>

DoRaw ==
  /\ Running /\ ~inwrite /\ CurOp.op = "raw"
  /\ WriteAll(CurOp.bytes, pc + 1, -1)
  /\ UNCHANGED <<prog, pos0, rows, path, starts, fake>>

\* align::<V>(): compute the padding (unit 0 underflows: defect #4), record the PADDING row
DoAlignStart ==
  /\ Running /\ ~inwrite /\ CurOp.op = "align" /\ padleft = -1
  /\ IF CurOp.unit = 0
     THEN /\ Fail("panic", <<"pad_align_to: align_to - 1 underflows">>)
          /\ UNCHANGED <<pc, padleft, rows>>
     ELSE LET pad == PadTo(pos, CurOp.unit)
          IN /\ IF pad = 0
                THEN pc' = pc + 1 /\ padleft' = -1 /\ rows' = rows
                ELSE /\ pc' = pc /\ padleft' = pad
                     /\ rows' = Append(rows, Row(<<"PADDING">>, pos, pad, 1))
             /\ UNCHANGED <<status, detail, src>>
  /\ UNCHANGED <<prog, pos0, pos, out, cur, inwrite, path, starts, fake, faults, ncalls, fault>>

\* one write_all(&[0]) per padding byte
DoPadByte ==
  /\ Running /\ ~inwrite /\ CurOp.op = "align" /\ padleft > 0
  /\ WriteAll(<<0>>, AfterWrite[1], AfterWrite[2])
  /\ UNCHANGED <<prog, pos0, rows, path, starts, fake>>

\* write_bytes::<V>(bytes): the row is pushed *before* the bytes are written
DoBlock ==
  /\ Running /\ ~inwrite /\ CurOp.op = "block"
  /\ rows' = Append(rows, Row(Append(path, "zero"), pos, Len(CurOp.bytes), CurOp.unit))
  /\ WriteAll(CurOp.bytes, pc + 1, -1)
  /\ UNCHANGED <<prog, pos0, path, starts, fake>>

DoZcCheck ==
  /\ Running /\ ~inwrite /\ CurOp.op = "zccheck"
  /\ IF CurOp.a = 1
     THEN pc' = pc + 1 /\ UNCHANGED <<status, detail, src>>
     ELSE Fail("panic", <<"check_zero_copy">>) /\ UNCHANGED pc
  /\ UNCHANGED <<prog, pos0, pos, out, padleft, cur, inwrite, rows, path, starts, fake, faults, ncalls, fault>>

DoFake ==
  /\ Running /\ ~inwrite /\ CurOp.op = "fake"
  /\ fake' = fake + 1 /\ pc' = pc + 1
  /\ UNCHANGED <<prog, pos0, pos, out, status, detail, padleft, cur, inwrite, rows, path, starts, src, faults, ncalls, fault>>
DoForget ==
  /\ Running /\ ~inwrite /\ CurOp.op = "forget"
  /\ fake' = fake - 1 /\ pc' = pc + 1
  /\ UNCHANGED <<prog, pos0, pos, out, status, detail, padleft, cur, inwrite, rows, path, starts, src, faults, ncalls, fault>>

DoIterCheck ==
  /\ Running /\ ~inwrite /\ CurOp.op = "itercheck"
  /\ IF CurOp.a = CurOp.b
     THEN pc' = pc + 1 /\ UNCHANGED <<status, detail, src>>
     ELSE Fail("LengthMismatch", <<CurOp.a, CurOp.b>>) /\ UNCHANGED pc
  /\ UNCHANGED <<prog, pos0, pos, out, padleft, cur, inwrite, rows, path, starts, fake, faults, ncalls, fault>>

DoFlush ==
  /\ Running /\ ~inwrite /\ CurOp.op = "flush"
  /\ \/ status' = "ok" /\ pc' = pc + 1 /\ UNCHANGED <<detail, src, fault>>
     \/ SinkFaulty /\ Fail("WriteError", <<"flush">>) /\ fault' = <<"flush">> /\ UNCHANGED pc
  /\ UNCHANGED <<prog, pos0, pos, out, padleft, cur, inwrite, rows, path, starts, fake, faults, ncalls>>

\* a body-only program has no flush: falling off the end is success
DoEnd ==
  /\ status = "run" /\ pc = Len(prog) + 1 /\ ~inwrite
  /\ status' = "ok"
  /\ UNCHANGED <<prog, pos0, pc, pos, out, detail, padleft, cur, inwrite, rows, path, starts, fake, src, faults, ncalls, fault>>

StdStep ==
  /\ SinkGrain = "std"
  /\ \/ \E n \in 1..Len(cur) : StdTake(n)
     \/ StdInterrupted \/ StdZero \/ StdError
  /\ UNCHANGED <<prog, pos0, rows, path, starts, fake>>

SerNext ==
  \/ DoEnter \/ DoExit \/ DoRaw \/ DoAlignStart \/ DoPadByte \/ DoBlock
  \/ DoZcCheck \/ DoFake \/ DoForget \/ DoIterCheck \/ DoFlush \/ DoEnd
  \/ StdStep

SerDone == status # "run"

=============================================================================
