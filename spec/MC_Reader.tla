----------------------------- MODULE MC_Reader -----------------------------
(***************************************************************************)
(* The readers on damaged or displaced streams.  A case is serialized by   *)
(* the serializer machine (perfect sink), then one *mutation* of the       *)
(* accepted bytes / of the placement / of the reader is chosen and both    *)
(* reader machines run on the result:                                      *)
(*   trunc   strict prefix of the stream (crash while storing)      C11    *)
(*   place   every residue of the buffer's base address             C12    *)
(*   tag     a variant tag overwritten with a value no variant writes C15  *)
(*   flip / revcookie / minor   header corruption                    C10   *)
(*   rfail   the reader fails at a read_exact (full copy)            C14   *)
(*   payload any single byte after the header replaced      (no property)  *)
(* Terminal states carry the mutation and the predicted outcome of both    *)
(* modes; the harness applies the same mutation to the real stream.        *)
(***************************************************************************)
EXTENDS EpsSystem, IOUtils

CONSTANTS TypeSet, MutKind, TagVals, Bases

VARIABLE mut
allVars == <<vars, mut>>

NameLens == IF "NAMES" \in DOMAIN IOEnv THEN JsonDeserialize(IOEnv.NAMES) ELSE [x \in {} |-> 0]
TS == TypesOf(TypeSet)

M(k, a, b, c) == [k |-> k, a |-> a, b |-> b, c |-> c]
NoMut == M("none", 0, 0, <<>>)

Pow2(n) == CASE n = 0 -> 1 [] n = 1 -> 2 [] n = 2 -> 4 [] n = 3 -> 8 [] n = 4 -> 16 [] n = 5 -> 32 [] n = 6 -> 64 [] n = 7 -> 128
FlipBit(byte, bit) ==
  IF byte > 255 THEN byte + 1000 * (bit + 1)        \* a symbolic hash byte: any other value
  ELSE IF (byte \div Pow2(bit)) % 2 = 1 THEN byte - Pow2(bit) ELSE byte + Pow2(bit)

\* boundary pointer-width tag words for a derived enum with n variants (little-endian byte sequences)
WordOf(n) == NE(n, UsizeBytes)
EnumTagWords(n) ==
  {WordOf(n), WordOf(n + 1), WordOf(255), WordOf(256),
   <<0, 0, 0, 0, 1, 0, 0, 0>>,                       \* 2^32
   <<0, 0, 0, 0, 0, 0, 0, 128>>,                     \* 2^63
   <<255, 255, 255, 255, 255, 255, 255, 255>>}       \* 2^64 - 1

TagRows == {i \in 1..Len(rows) : rows[i].nv > 0}
\* payload damage (beyond the listed properties): any single byte after the header replaced by a boundary value.
\* Bytes of unknown content (padding inside a zero-copy value) are left alone; the two middle bytes of a length
\* word are left alone too (they make sequences of up to 2^24 items: the same behaviour as the low byte's 255,
\* at a cost the model checker cannot pay)
PayloadStart == HeaderLen(case.nameLen)
ByteVals(b) == {0, 1, 2, 128, 255, (b + 1) % 256} \ {b}
LenMiddle == UNION {{rows[i].off + 1, rows[i].off + 2} :
                     i \in {j \in 1..Len(rows) : rows[j].size = UsizeBytes /\ rows[j].field[Len(rows[j].field)] = "len"}}
PayloadMuts ==
  UNION {{M("byte", off, 1, <<x>>) : x \in ByteVals(out[off + 1])}
         : off \in {o \in PayloadStart..(Len(out) - 1) : out[o + 1] <= 255 /\ o \notin LenMiddle}}
MutsOf(kind) ==
  CASE kind = "trunc" -> {M("trunc", k, 0, <<>>) : k \in 0..(Len(out) - 1)}
    [] kind = "place" -> {M("place", b, 0, <<>>) : b \in Bases}
    [] kind = "tag" ->
         UNION {IF rows[i].size = 1
                THEN {M("tag", rows[i].off, 1, <<x>>) : x \in {y \in TagVals : y >= rows[i].nv}}
                ELSE {M("tag", rows[i].off, UsizeBytes, w) : w \in EnumTagWords(rows[i].nv)}
                : i \in TagRows}
    [] kind = "header" ->
         {M("flip", byte, bit, <<>>) : byte \in 0..(FixedHeaderLen - 1), bit \in 0..7}
         \* the same flips on a valid file of a *lower* minor version (such a file is accepted, so it is
         \* a valid file too: every check must still be made on it)
         \cup {M("flip0", byte, bit, <<>>) : byte \in (0..(FixedHeaderLen - 1)) \ {10, 11}, bit \in 0..7}
         \cup {M("revcookie", 0, 0, <<>>)}
         \cup {M("minor", 10, 2, NE(x, 2)) : x \in {0, 1, 2, 3, 255, 256, 257, 32767, 32768, 65535}}
    [] kind = "rfail" -> {NoMut}
    [] kind = "payload" -> PayloadMuts

Splice(bs, off, new) == SubSeq(bs, 1, off) \o new \o SubSeq(bs, off + Len(new) + 1, Len(bs))
Apply(m, bs) ==
  CASE m.k = "trunc" -> SubSeq(bs, 1, m.a)
    [] m.k \in {"tag", "byte"} -> Splice(bs, m.a, m.c)
    [] m.k = "minor" -> Splice(bs, m.a, m.c)
    [] m.k = "flip" -> [bs EXCEPT ![m.a + 1] = FlipBit(bs[m.a + 1], m.b)]
    [] m.k = "flip0" -> LET low == Splice(bs, 10, NE(0, 2)) IN [low EXCEPT ![m.a + 1] = FlipBit(low[m.a + 1], m.b)]
    [] m.k = "revcookie" -> Splice(bs, 0, Rev(SubSeq(bs, 1, 8)))
    [] OTHER -> bs
\* the address residue of the buffer in ε-copy mode
BaseOf(m) ==
  CASE m.k = "place" -> m.a
    [] m.k = "trunc" -> m.b       \* 0, or the residue that puts the end of the prefix on a page boundary
    [] OTHER -> 0

ChooseCase ==
  \E t \in TS :
    LET vs == Values(t)
        k == Key(t)
        nl == IF k \in DOMAIN NameLens THEN NameLens[k] ELSE 0
    IN \E i \in 1..Len(vs) : case = Case(t, vs[i], "pub", nl, 0, -1, 0)

Init == ChooseCase /\ SysInitRest /\ mut = NoMut

Mutate ==
  /\ phase = "ser" /\ SerDone /\ status = "ok"
  /\ \E m \in MutsOf(MutKind) :
       \* truncations are read at base 0 and at the base that ends the prefix on a page boundary
       \E b \in (IF m.k = "trunc" THEN {0, (128 - (m.a % 128)) % 128} ELSE {0}) :
         /\ mut' = [m EXCEPT !.b = IF m.k = "trunc" THEN b ELSE m.b]
         /\ phase' = "full"
         /\ ReadReset(Apply(m, out), 0, 0, FramesOf(case, "full"))
  /\ UNCHANGED <<serVars, case, exp, fullRes>>

Next ==
  \/ Load /\ UNCHANGED mut
  \/ /\ phase = "ser" /\ ~SerDone /\ SerNext /\ UNCHANGED <<readVars, sysVars, mut>>
  \/ Mutate
  \/ /\ phase = "full" /\ ~ReadDone /\ ReadNext /\ UNCHANGED <<serVars, sysVars, mut>>
  \/ /\ phase = "full" /\ ReadDone
     /\ fullRes' = ResRec /\ phase' = "eps"
     /\ ReadReset(input, 0, BaseOf(mut), FramesOf(case, "eps"))
     /\ UNCHANGED <<serVars, case, exp, mut>>
  \/ /\ phase = "eps" /\ ~ReadDone /\ ReadNext /\ UNCHANGED <<serVars, sysVars, mut>>
  \/ /\ phase = "eps" /\ ReadDone /\ phase' = "done" /\ UNCHANGED <<serVars, readVars, case, exp, fullRes, mut>>

---------------------------------------------------------------------------
Done == phase = "done"
EpsSt == rstatus
FullSt == fullRes.st

\* C11: a strict prefix is never a value; full copy reports a read error
TruncNeverValue ==
  (Done /\ mut.k = "trunc") => /\ FullSt = "ReadError"
                               /\ EpsSt \in {"ReadError", "AlignmentError", "panic"}
\* ... and nothing is touched beyond the prefix (every fetch is bounds-checked in the machine by
\* construction; the invariant states it for the positions reached)
InBounds == rpos <= Len(input)

\* C12: success exactly when every block encountered is on a multiple of its unit
AllAligned(b) == \A i \in 1..Len(rows) :
   (rows[i].align > 0 /\ rows[i].field[Len(rows[i].field)] = "zero") => (b + rows[i].off) % rows[i].align = 0
PlaceRule ==
  (Done /\ mut.k = "place") =>
     /\ (EpsSt = "ok" <=> AllAligned(mut.a))
     /\ EpsSt \in {"ok", "AlignmentError"}
     /\ EpsSt = "ok" => (vals = <<case.v>> /\
                          \A i \in 1..Len(borrows) : borrows[i].len > 0 => (mut.a + borrows[i].off) % borrows[i].al = 0)
ByteAlignedAnywhere ==
  (Done /\ mut.k = "place" /\ \A i \in 1..Len(rows) : rows[i].align <= 1) => EpsSt = "ok"

\* C15: a foreign tag is rejected with exactly that value, in both modes
TagPayload(m) == IF m.b = 1 THEN m.c ELSE m.c
TagRule ==
  (Done /\ mut.k = "tag") =>
     /\ FullSt = "InvalidTag" /\ fullRes.detail = mut.c
     /\ EpsSt = "InvalidTag" /\ rdetail = mut.c

\* C10: the specific error, carrying the offending value; a lower minor version is accepted
HeaderRule ==
  (Done /\ mut.k \in {"flip", "flip0", "revcookie", "minor"}) =>
    LET both(st) == FullSt = st /\ EpsSt = st
        hb == SubSeq(input, 1, FixedHeaderLen)
    IN CASE mut.k = "revcookie" -> both("EndiannessError")
         [] mut.k = "minor" ->
              IF NEVal(mut.c) > VersionMinor
              THEN both("MinorVersionMismatch") /\ rdetail = <<NEVal(mut.c)>> /\ fullRes.detail = <<NEVal(mut.c)>>
              ELSE both("ok") /\ vals = <<case.v>> /\ fullRes.val = <<case.v>>
         [] mut.k \in {"flip", "flip0"} ->
              CASE mut.a < 8 -> both("MagicCookieError") /\ rdetail = SubSeq(hb, 1, 8) /\ fullRes.detail = SubSeq(hb, 1, 8)
                [] mut.a \in {8, 9} -> both("MajorVersionMismatch") /\ rdetail = <<NEVal(SubSeq(hb, 9, 10))>>
                [] mut.a \in {10, 11} ->
                     IF NEVal(SubSeq(hb, 11, 12)) > VersionMinor
                     THEN both("MinorVersionMismatch") /\ rdetail = <<NEVal(SubSeq(hb, 11, 12))>>
                     ELSE both("ok")
                [] mut.a = 12 -> both("UsizeSizeMismatch") /\ rdetail = <<hb[13]>>
                [] mut.a \in 13..20 -> both("WrongTypeHash") /\ rdetail = SubSeq(hb, 14, 21)
                [] mut.a \in 21..28 -> both("WrongAlignHash") /\ rdetail = SubSeq(hb, 22, 29)
NeverPanicOnHeader == (mut.k \in {"flip", "flip0", "revcookie", "minor"}) => (rstatus # "panic" /\ fullRes.st # "panic")

\* payload damage: both readers stop with one of the outcomes the code has, without touching a byte outside
\* the input; a value is only returned with the whole... (no: a shortened length leaves bytes unread) - what holds
\* is weaker: full copy and ε-copy agree on acceptance unless the difference is an alignment / bounds matter
PayloadOutcomes ==
  (Done /\ mut.k = "byte") =>
     /\ FullSt \in {"ok", "ReadError", "InvalidTag", "panic", "ub", "hang", "ok-huge"}
     /\ EpsSt \in {"ok", "ReadError", "InvalidTag", "panic", "AlignmentError", "ub", "hang", "ok-huge"}
\* when both accept, they return the same value
PayloadAgree ==
  (Done /\ mut.k = "byte" /\ FullSt = "ok" /\ EpsSt = "ok") => fullRes.val = vals

\* C14: a failing reader yields a read error, never a value, never a panic
ReaderFailRule ==
  (phase \in {"eps", "done"} /\ mut.k = "none" /\ fullRes.st # "ok") => fullRes.st = "ReadError"

RBehaviour ==
  [key |-> Key(case.t), v |-> case.v, nameLen |-> case.nameLen, mut |-> mut,
   full |-> fullRes,
   eps |-> [st |-> rstatus, detail |-> rdetail, val |-> IF rstatus = "ok" THEN vals ELSE <<>>,
            rpos |-> rpos, borrows |-> borrows],
   len |-> Len(out), base |-> BaseOf(mut)]
EmitR == Done => PrintT(ToJson(RBehaviour))
====
