------------------------------- MODULE Derive -------------------------------
(***************************************************************************)
(* User type definitions as data: mutation operators over definitions      *)
(* (near-miss mutants for C04, wrongly-declared zero-copy mutants for C17)  *)
(* and, further below, the grammar of definitions the derive macro          *)
(* supports (C05).  A mutant keeps the *hashed identifier* of the original  *)
(* (`name`) and lives in its own Rust module (`mod`), which is how "the     *)
(* same type as declared by another build" coexists in one program.         *)
(***************************************************************************)
EXTENDS Universe, SequencesExt

InMod(def, m) == [def EXCEPT !.mod = m]

\* same-size replacement types (layout-preserving, structure-changing)
SameSize(t) ==
  CASE t = Prim("u8") -> Prim("i8") [] t = Prim("u16") -> Prim("i16") [] t = Prim("u32") -> Prim("i32")
    [] t = Prim("u64") -> Prim("i64") [] t = Prim("i32") -> Prim("u32") [] t = Prim("bool") -> Prim("u8")
    [] OTHER -> t

SetField(def, i, f) == [def EXCEPT !.fields[i] = f]
FieldNames(def) == {def.fields[i].name : i \in 1..Len(def.fields)}
IsTupleStruct(def) == def.dk = "struct" /\ def.fields # <<>> /\ def.fields[1].name = "0"
AllGenZC(fs) == \A i \in 1..Len(fs) : fs[i].g.k \in {"prim", "array", "tuple"}

NumS(i) == ToString(i)

\* one field renamed (named structs only)
MutRename(def) ==
  IF def.dk # "struct" \/ IsTupleStruct(def) THEN {}
  ELSE {InMod(SetField(def, i, [def.fields[i] EXCEPT !.name = def.fields[i].name \o "x"]), "rn" \o NumS(i))
        : i \in 1..Len(def.fields)}
\* two adjacent fields swapped (named structs: names travel with their types)
MutSwap(def) ==
  IF def.dk # "struct" \/ Len(def.fields) < 2 \/ IsTupleStruct(def) THEN {}
  ELSE {InMod([def EXCEPT !.fields[i] = def.fields[i + 1], !.fields[i + 1] = def.fields[i]], "sw" \o NumS(i))
        : i \in 1..(Len(def.fields) - 1)}
\* one field type replaced by a type of the same size
MutType(def) ==
  IF def.dk # "struct" THEN {}
  ELSE {InMod(SetField(def, i, [def.fields[i] EXCEPT !.g = SameSize(def.fields[i].g)]), "ty" \o NumS(i))
        : i \in {j \in 1..Len(def.fields) : SameSize(def.fields[j].g) # def.fields[j].g}}
\* copy kind toggled
MutCopy(def) ==
  IF def.zc THEN {InMod([def EXCEPT !.zc = FALSE, !.da = TRUE], "ck")}
  ELSE IF def.dk = "struct" /\ def.tparams = <<>> /\ AllGenZC(def.fields) /\ def.fields # <<>>
       THEN {InMod([def EXCEPT !.zc = TRUE, !.da = FALSE, !.reprs = <<"C">>], "ck")}
       ELSE {}
\* const parameter renamed
MutConstName(def) ==
  IF def.cparams = <<>> THEN {}
  ELSE {InMod([def EXCEPT !.cparams[1].name = "M"], "cn")}
\* representation attribute added / removed (zero-copy only: deep types have no layout to speak of)
MutRepr(def) ==
  IF ~def.zc THEN {}
  ELSE IF \E i \in 1..Len(def.reprs) : def.reprs[i] = "align(16)"
       THEN {InMod([def EXCEPT !.reprs = <<"C">>], "ra")}
       ELSE {InMod([def EXCEPT !.reprs = def.reprs \o <<"align(16)">>], "ra")}
\* the argument of repr(align(N)) changed (the attribute stays): 16 -> 8 and 16 -> 32
ReplaceRepr(rs, from, to) == [i \in 1..Len(rs) |-> IF rs[i] = from THEN to ELSE rs[i]]
MutAlignArg(def) ==
  IF ~def.zc \/ ~(\E i \in 1..Len(def.reprs) : def.reprs[i] = "align(16)") THEN {}
  ELSE {InMod([def EXCEPT !.reprs = ReplaceRepr(def.reprs, "align(16)", "align(8)")], "rb"),
        InMod([def EXCEPT !.reprs = ReplaceRepr(def.reprs, "align(16)", "align(32)")], "rc")}
\* array length / sequence kind / tuple arity of one field changed
MutShape(def) ==
  IF def.dk # "struct" THEN {}
  ELSE {InMod(SetField(def, i,
          [def.fields[i] EXCEPT !.g =
             CASE def.fields[i].g.k = "array" -> [def.fields[i].g EXCEPT !.n = def.fields[i].g.n + 1]
               [] def.fields[i].g.k = "vec" -> BoxSlice(def.fields[i].g.elem)
               [] def.fields[i].g.k = "tuple" -> [def.fields[i].g EXCEPT !.n = def.fields[i].g.n + 1]
               [] OTHER -> def.fields[i].g]), "sh" \o NumS(i))
        : i \in {j \in 1..Len(def.fields) : def.fields[j].g.k \in {"array", "vec", "tuple"}}}
\* a variant renamed / two variants reordered
MutVariant(def) ==
  IF def.dk # "enum" THEN {}
  ELSE {InMod([def EXCEPT !.variants[i].name = def.variants[i].name \o "x"], "vr" \o NumS(i))
        : i \in 1..Len(def.variants)}
       \cup (IF Len(def.variants) < 2 THEN {}
             ELSE {InMod([def EXCEPT !.variants[1] = def.variants[2], !.variants[2] = def.variants[1]], "vo")})

CoreDefSet == {CoreDefs[i] : i \in 1..Len(CoreDefs)}

NearMiss(def) ==
  MutRename(def) \cup MutSwap(def) \cup MutType(def) \cup MutCopy(def) \cup MutConstName(def)
  \cup MutRepr(def) \cup MutAlignArg(def) \cup MutShape(def) \cup MutVariant(def)

---------------------------------------------------------------------------
(* C17: wrongly declared zero-copy definitions.  From every valid zero-copy  *)
(* definition: one field replaced by a type that is not zero-copy (vector,   *)
(* string, boxed slice, deep struct, reference holder, option), repr(C)      *)
(* dropped, or a conflicting attribute added.  `defence` says which layer    *)
(* must reject the mutant: "macro" (attribute coherence panics of the        *)
(* derive), "bound" (the field type is not ZeroCopy: the no-op               *)
(* `test::<FieldTy>()` calls / the ZeroCopy bound of serialize_zero).        *)
BadFieldTypes ==
  << [tag |-> "vec", g |-> Vec(U8)], [tag |-> "string", g |-> StringT], [tag |-> "boxslice", g |-> BoxSlice(U8)],
     [tag |-> "deep", g |-> Inst(D_DZ, <<>>, <<>>)], [tag |-> "refstr", g |-> [k |-> "staticstr"]],
     [tag |-> "refslice", g |-> [k |-> "staticslice"]], [tag |-> "option", g |-> Option(U32)],
     [tag |-> "rawptr", g |-> [k |-> "rawptr"]],
     \* a deep-copy derived struct that is Copy + 'static and has a hand-written MaxSizeOf: only the
     \* ZeroCopy bound check / IS_ZERO_COPY constant of the *enclosing* definition can reject it
     [tag |-> "deeppod", g |-> [k |-> "deeppod"]] >>
WZField(def) ==
  IF def.dk # "struct" \/ def.fields = <<>> THEN {}
  ELSE {[def |-> InMod(SetField(def, i, [def.fields[i] EXCEPT !.g = BadFieldTypes[j].g]), "wz"),
         tag |-> BadFieldTypes[j].tag \o NumS(i), defence |-> "bound"]
        : i \in 1..Len(def.fields), j \in 1..Len(BadFieldTypes)}
WZEnumField(def) ==
  IF def.dk # "enum" THEN {}
  ELSE UNION {
         {[def |-> InMod([def EXCEPT !.variants[i].fields[f].g = BadFieldTypes[j].g], "wz"),
           tag |-> BadFieldTypes[j].tag \o "v" \o NumS(i) \o "f" \o NumS(f), defence |-> "bound"]
          : f \in 1..Len(def.variants[i].fields), j \in {1, 2, 5, 9}}
         : i \in 1..Len(def.variants)}
WZAttr(def) ==
  {[def |-> InMod([def EXCEPT !.reprs = SelectSeq(def.reprs, LAMBDA r : r # "C")], "wz"), tag |-> "norepr", defence |-> "macro"],
   [def |-> InMod([def EXCEPT !.da = TRUE], "wz"), tag |-> "both", defence |-> "macro"]}
WrongZero(def) == IF def.zc THEN WZField(def) \cup WZEnumField(def) \cup WZAttr(def) ELSE {}
AllWrongZero == UNION {WrongZero(d) : d \in CoreDefSet}

\* contexts in which a hand-written "zero-copy" type with a pointer inside (kind "hw") can be serialized
HwContexts ==
  {HwT, Vec(HwT), BoxSlice(HwT), Slice(HwT), SerIter(HwT), Array(2, HwT), Array(0, HwT), Tuple(1, HwT), Tuple(2, HwT),
   Option(HwT), Range("RangeTo", HwT), Vec(Range("RangeTo", HwT)), Vec(Tuple(1, HwT)), Vec(Array(1, HwT)),
   G(HwT), G(Vec(HwT)), G(Tuple(2, HwT)), Vec(Vec(HwT)), Option(Vec(HwT))}

---------------------------------------------------------------------------
(* C05: the grammar of definitions the derive macro supports, enumerated.   *)
(* Named / tuple / unit structs; unit / tuple / struct variants; type and    *)
(* const parameters (with bounds, defaults, where-clauses); phantom          *)
(* parameters; fields whose type *is* a parameter (ε-copied) and fields      *)
(* whose type merely *mentions* one (fully copied); zero_copy / deep_copy /  *)
(* repr attributes; nesting of previously defined types.                     *)
\* field-type pool (generic forms).  1-5: no parameter; 6-11: parameter A; 12: parameter B; 13: const N
FT(i) ==
  CASE i = 1 -> U8 [] i = 2 -> U32 [] i = 3 -> StringT [] i = 4 -> Vec(U16) [] i = 5 -> Inst(D_ZPad, <<>>, <<>>)
    [] i = 6 -> Param(1) [] i = 7 -> Vec(Param(1)) [] i = 8 -> Option(Param(1)) [] i = 9 -> Phantom(Param(1))
    [] i = 10 -> Inst(D_G, <<Param(1)>>, <<>>) [] i = 11 -> Array(2, Param(1))
    [] i = 12 -> Param(2) [] i = 13 -> CArray(1, U16) [] i = 14 -> Inst(D_DS, <<>>, <<>>) [] i = 15 -> Tuple(2, U32)
    [] i = 16 -> BoolT
ZcFT == {1, 2, 5, 9, 13, 15, 16}        \* usable in a zero-copy definition (9 needs A: ZeroCopy)
UsesA(is) == \E j \in 1..Len(is) : is[j] \in 6..11
UsesB(is) == \E j \in 1..Len(is) : is[j] = 12
UsesN(is) == \E j \in 1..Len(is) : is[j] = 13

FieldName(j, tuple) == IF tuple THEN NumS(j - 1) ELSE CASE j = 1 -> "a" [] j = 2 -> "b" [] j = 3 -> "c"
RECURSIVE Code(_)
Code(is) == IF is = <<>> THEN "" ELSE NumS(Head(is)) \o "_" \o Code(Tail(is))
MkFields(is, tuple) == [j \in 1..Len(is) |-> GF(FieldName(j, tuple), FT(is[j]))]
TParams(is) == (IF UsesA(is) \/ UsesB(is) THEN <<"A">> ELSE <<>>) \o (IF UsesB(is) THEN <<"B">> ELSE <<>>)
CParams(is) == IF UsesN(is) THEN <<[name |-> "N", ck |-> "usize"]>> ELSE <<>>

\* decoration of the parameters, chosen by a small index d: 0 plain, 1 bound on A, 2 default for the last
\* type parameter, 3 where-clause
Decorate(def, d) ==
  IF def.tparams = <<>> THEN def
  ELSE CASE d = 1 -> [def EXCEPT !.tbounds[1] = "core::fmt::Debug"]
         \* a defaulted parameter must be trailing: only when there is no const parameter after it
         [] d = 2 -> IF def.cparams = <<>> THEN [def EXCEPT !.tdefaults[Len(def.tparams)] = "u32"] ELSE def
         [] d = 3 -> [def EXCEPT !.wherec = "A: Clone"]
         \* d = 4: the const parameters are DECLARED BEFORE the type parameters (`struct S<const N: usize, A>`).  No
         \* recipe depends on the order of declaration, so the definition is the same record; the generator renders
         \* definitions whose name ends in "d4" (and their instantiations) with the const parameters first.
         [] OTHER -> def

\* attribute variant v: 0 deep (no attribute), 1 deep_copy, 2 deep + repr(C), 3 zero_copy + repr(C),
\* 4 zero_copy + repr(C) + repr(align(16))
Attr(def, v) ==
  CASE v = 1 -> [def EXCEPT !.da = TRUE]
    [] v = 2 -> [def EXCEPT !.reprs = <<"C">>]
    [] v = 3 -> [def EXCEPT !.zc = TRUE, !.reprs = <<"C">>,
                            !.tbounds = [i \in 1..Len(def.tparams) |-> "epserde::traits::ZeroCopy"]]
    [] v = 4 -> [def EXCEPT !.zc = TRUE, !.reprs = <<"C", "align(16)">>,
                            !.tbounds = [i \in 1..Len(def.tparams) |-> "epserde::traits::ZeroCopy"]]
    [] OTHER -> def
ZcOk(is) == \A j \in 1..Len(is) : is[j] \in ZcFT

GStruct(is, tuple, v, d) ==
  LET base == DefStruct("S" \o (IF tuple THEN "t" ELSE "n") \o Code(is) \o "v" \o NumS(v) \o "d" \o NumS(d),
                        FALSE, FALSE, <<>>, CParams(is), TParams(is), MkFields(is, tuple))
  IN Decorate(Attr(base, v), IF v \in {3, 4} THEN 0 ELSE d)

\* field index lists: all singles, pairs over a reduced pool, triples over a smaller one
Singles == {<<i>> : i \in 1..16}
Pairs == {<<i, j>> : i \in {2, 3, 6, 7, 12, 13}, j \in {1, 4, 6, 8, 9, 10}}
Triples == {<<i, j, k>> : i \in {1, 6}, j \in {3, 6, 11}, k \in {2, 7, 12}}
\* WellFormed: a second parameter only together with the first (rustc rejects an unused parameter), and a
\* parameter is either *external* (the type of some field, ε-copied, replaced in the ε-copy type) or *internal*
\* (only mentioned inside field types, left untouched): a definition using the same parameter both ways has no
\* well-typed ε-copy type under the documented rule and is outside the supported grammar
ExactA(x) == \E j \in 1..Len(x) : x[j] = 6
MentionsA(x) == \E j \in 1..Len(x) : x[j] \in {7, 8, 9, 10, 11}
WellFormedIdx(x) == (UsesB(x) => UsesA(x)) /\ ~(ExactA(x) /\ MentionsA(x))
FieldLists == {x \in {<<>>} \cup Singles \cup Pairs \cup Triples : WellFormedIdx(x)}

StructDefs ==
  {GStruct(is, FALSE, v, d) : is \in FieldLists, v \in {0, 1}, d \in {0}}
  \cup {GStruct(is, FALSE, 0, d) : is \in Pairs \cap FieldLists, d \in {1, 2, 3}}
  \cup {GStruct(is, FALSE, 0, 4) : is \in {x \in Pairs \cap FieldLists : UsesN(x) /\ UsesA(x)}}
  \cup {GStruct(<<6, 13, 12>>, FALSE, 0, 4), GStruct(<<13, 6>>, TRUE, 0, 4)}
  \cup {GStruct(is, FALSE, 2, 0) : is \in Singles \cap FieldLists}
  \cup {GStruct(is, FALSE, v, 0) : is \in {x \in FieldLists : ZcOk(x)}, v \in {3, 4}}
  \cup {GStruct(is, TRUE, v, 0) : is \in ((Singles \cup {x \in Pairs : x[1] \in {2, 6, 12}}) \cap FieldLists), v \in {0}}
  \cup {GStruct(is, TRUE, 3, 0) : is \in {x \in Singles \cup Pairs : ZcOk(x)}}

\* enum variants: kinds "unit", "tuple", "named" with field lists
GV(n, vk, is) == GVar(n, vk, MkFields(is, vk = "tuple"))
VariantPool == << GV("U", "unit", <<>>), GV("T", "tuple", <<6>>), GV("P", "tuple", <<2, 7>>), GV("N", "named", <<3>>),
                  GV("M", "named", <<6, 12>>), GV("Z", "tuple", <<1>>), GV("Q", "named", <<2, 16>>),
                  GV("H", "tuple", <<9, 2>>), GV("O", "tuple", <<8>>), GV("C", "named", <<13>>),
                  \* a parameter-typed (ε-copied) field *before* fully copied ones, and between them: the order in which
                  \* the derived ε-copy reader evaluates the initialisers is the order of the stream
                  GV("R", "named", <<6, 2>>), GV("K", "named", <<2, 6, 4>>), GV("W", "tuple", <<6, 2>>),
                  GV("J", "named", <<6, 3, 12>>) >>
VarIdx(vs) == Cat([j \in 1..Len(vs) |-> <<vs[j]>>])
EnumFieldIdx(vs) == Cat([j \in 1..Len(vs) |-> [k \in 1..Len(VariantPool[vs[j]].fields) |->
                      CHOOSE x \in 1..16 : FT(x) = VariantPool[vs[j]].fields[k].g]])
GEnum(vs, v) ==
  LET is == EnumFieldIdx(vs)
      base == DefEnum("E" \o Code(vs) \o "v" \o NumS(v), FALSE, FALSE, <<>>, CParams(is), TParams(is),
                      [j \in 1..Len(vs) |-> VariantPool[vs[j]]])
  IN Attr(base, v)
VarLists == {<<i>> : i \in 1..14} \cup {<<i, j>> : i \in {1, 2, 5}, j \in {3, 4, 6, 7, 9, 11, 12}}
            \cup {<<1, 2, 4>>, <<5, 1, 3>>, <<2, 10, 1>>, <<1, 6, 7>>, <<8, 1, 6>>, <<1, 11, 13>>, <<14, 12, 1>>}
EnumZcOk(vs) == ZcOk(EnumFieldIdx(vs))
EnumOk(vs) == WellFormedIdx(EnumFieldIdx(vs))
EnumDefs ==
  {GEnum(vs, v) : vs \in {x \in VarLists : EnumOk(x)}, v \in {0, 1}}
  \cup {GEnum(vs, 3) : vs \in {x \in VarLists : EnumZcOk(x)}}
  \* bounds, defaults and where-clauses on the parameters of enums
  \cup {LET e == GEnum(vs, 0) IN Decorate([e EXCEPT !.name = e.name \o "d" \o NumS(d)], d)
        : vs \in {<<2>>, <<5>>, <<1, 2, 4>>, <<5, 1, 4>>}, d \in {1, 2, 3}}
  \* const parameter declared before the type parameter (tuple, named and unit variants)
  \cup {LET e == GEnum(vs, 0) IN Decorate([e EXCEPT !.name = e.name \o "d4"], 4) : vs \in {<<2, 10, 1>>, <<11, 10>>}}

GrammarDefs == StructDefs \cup EnumDefs

\* instantiations: every definition with each choice of arguments it admits
ArgsFor(def) ==
  LET zc == def.zc
      as == IF zc THEN {U32, Inst(D_ZPad, <<>>, <<>>)} ELSE {U32, Vec(U64), StringT}
      bs == IF zc THEN {U8} ELSE {U8, Vec(U16)}
  IN IF Len(def.tparams) = 0 THEN {<<>>}
     ELSE IF Len(def.tparams) = 1 THEN {<<a>> : a \in as}
     ELSE {<<a, b>> : a \in as, b \in bs}
\* Array(2, A) and Vec<A> fields need an element that can be one; Phantom needs nothing
InstOk(t) == TRUE
GrammarTypes ==
  UNION {{Inst(d, targs, [i \in 1..Len(d.cparams) |-> n]) : targs \in ArgsFor(d), n \in (IF d.cparams = <<>> THEN {0} ELSE {0, 3})}
         : d \in GrammarDefs}

---------------------------------------------------------------------------
(* The universe of C04: every core definition with its near-miss mutants,   *)
(* instantiated, and wrapped in the constructors whose hashes recurse.      *)
MutDefs == UNION {NearMiss(d) : d \in CoreDefSet}
InstD(def) == Inst(def, [i \in 1..Len(def.tparams) |-> U16], [i \in 1..Len(def.cparams) |-> 3])
MutLeaves == {InstD(d) : d \in MutDefs \cup CoreDefSet} \cup {ZCn(4), DCn(3), ZPh(U32), G(U32), G2(U32)}
Wrap(S) ==
  {Vec(t) : t \in {x \in S : ElemOk(x)}} \cup {BoxSlice(t) : t \in {x \in S : ElemOk(x)}}
  \cup {Option(t) : t \in S} \cup {Bound(t) : t \in S} \cup {G(t) : t \in S}
  \cup {Array(2, t) : t \in {x \in S : ElemOk(x)}} \cup {CFlow(t, U8) : t \in S}
HashUniverse == MutLeaves \cup Wrap(MutLeaves)
\* an operator with a parameter on purpose (not evaluated at start-up unless used)
HashTypes(extra) == HashUniverse \cup extra
AllDefs == CoreDefs \o SetToSeq(MutDefs)

=============================================================================
