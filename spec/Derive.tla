------------------------------- MODULE Derive -------------------------------
(***************************************************************************)
(* User type definitions as data: mutation operators over definitions      *)
(* (near-miss mutants for C04, wrongly-declared zero-copy mutants for C17)  *)
(* and, further below, the grammar of definitions the derive macro          *)
(* supports (C05).  A mutant keeps the *hashed identifier* of the original  *)
(* (`name`) and lives in its own Rust module (`mod`), which is how "the     *)
(* same type as declared by another build" coexists in one program.         *)
(***************************************************************************)
EXTENDS Universe, SequencesExt

InMod(def, m) == [def EXCEPT !.mod = m]

\* same-size replacement types (layout-preserving, structure-changing)
SameSize(t) ==
  CASE t = Prim("u8") -> Prim("i8") [] t = Prim("u16") -> Prim("i16") [] t = Prim("u32") -> Prim("i32")
    [] t = Prim("u64") -> Prim("i64") [] t = Prim("i32") -> Prim("u32") [] t = Prim("bool") -> Prim("u8")
    [] OTHER -> t

SetField(def, i, f) == [def EXCEPT !.fields[i] = f]
FieldNames(def) == {def.fields[i].name : i \in 1..Len(def.fields)}
IsTupleStruct(def) == def.dk = "struct" /\ def.fields # <<>> /\ def.fields[1].name = "0"
AllGenZC(fs) == \A i \in 1..Len(fs) : fs[i].g.k \in {"prim", "array", "tuple"}

NumS(i) == ToString(i)

\* one field renamed (named structs only)
MutRename(def) ==
  IF def.dk # "struct" \/ IsTupleStruct(def) THEN {}
  ELSE {InMod(SetField(def, i, [def.fields[i] EXCEPT !.name = def.fields[i].name \o "x"]), "rn" \o NumS(i))
        : i \in 1..Len(def.fields)}
\* two adjacent fields swapped (named structs: names travel with their types)
MutSwap(def) ==
  IF def.dk # "struct" \/ Len(def.fields) < 2 \/ IsTupleStruct(def) THEN {}
  ELSE {InMod([def EXCEPT !.fields[i] = def.fields[i + 1], !.fields[i + 1] = def.fields[i]], "sw" \o NumS(i))
        : i \in 1..(Len(def.fields) - 1)}
\* one field type replaced by a type of the same size
MutType(def) ==
  IF def.dk # "struct" THEN {}
  ELSE {InMod(SetField(def, i, [def.fields[i] EXCEPT !.g = SameSize(def.fields[i].g)]), "ty" \o NumS(i))
        : i \in {j \in 1..Len(def.fields) : SameSize(def.fields[j].g) # def.fields[j].g}}
\* copy kind toggled
MutCopy(def) ==
  IF def.zc THEN {InMod([def EXCEPT !.zc = FALSE, !.da = TRUE], "ck")}
  ELSE IF def.dk = "struct" /\ def.tparams = <<>> /\ AllGenZC(def.fields) /\ def.fields # <<>>
       THEN {InMod([def EXCEPT !.zc = TRUE, !.da = FALSE, !.reprs = <<"C">>], "ck")}
       ELSE {}
\* const parameter renamed
MutConstName(def) ==
  IF def.cparams = <<>> THEN {}
  ELSE {InMod([def EXCEPT !.cparams[1].name = "M"], "cn")}
\* representation attribute added / removed (zero-copy only: deep types have no layout to speak of)
MutRepr(def) ==
  IF ~def.zc THEN {}
  ELSE IF \E i \in 1..Len(def.reprs) : def.reprs[i] = "align(16)"
       THEN {InMod([def EXCEPT !.reprs = <<"C">>], "ra")}
       ELSE {InMod([def EXCEPT !.reprs = def.reprs \o <<"align(16)">>], "ra")}
\* array length / sequence kind / tuple arity of one field changed
MutShape(def) ==
  IF def.dk # "struct" THEN {}
  ELSE {InMod(SetField(def, i,
          [def.fields[i] EXCEPT !.g =
             CASE def.fields[i].g.k = "array" -> [def.fields[i].g EXCEPT !.n = def.fields[i].g.n + 1]
               [] def.fields[i].g.k = "vec" -> BoxSlice(def.fields[i].g.elem)
               [] def.fields[i].g.k = "tuple" -> [def.fields[i].g EXCEPT !.n = def.fields[i].g.n + 1]
               [] OTHER -> def.fields[i].g]), "sh" \o NumS(i))
        : i \in {j \in 1..Len(def.fields) : def.fields[j].g.k \in {"array", "vec", "tuple"}}}
\* a variant renamed / two variants reordered
MutVariant(def) ==
  IF def.dk # "enum" THEN {}
  ELSE {InMod([def EXCEPT !.variants[i].name = def.variants[i].name \o "x"], "vr" \o NumS(i))
        : i \in 1..Len(def.variants)}
       \cup (IF Len(def.variants) < 2 THEN {}
             ELSE {InMod([def EXCEPT !.variants[1] = def.variants[2], !.variants[2] = def.variants[1]], "vo")})

NearMiss(def) ==
  MutRename(def) \cup MutSwap(def) \cup MutType(def) \cup MutCopy(def) \cup MutConstName(def)
  \cup MutRepr(def) \cup MutShape(def) \cup MutVariant(def)

---------------------------------------------------------------------------
(* The universe of C04: every core definition with its near-miss mutants,   *)
(* instantiated, and wrapped in the constructors whose hashes recurse.      *)
CoreDefSet == {CoreDefs[i] : i \in 1..Len(CoreDefs)}
MutDefs == UNION {NearMiss(d) : d \in CoreDefSet}
InstD(def) == Inst(def, [i \in 1..Len(def.tparams) |-> U16], [i \in 1..Len(def.cparams) |-> 3])
MutLeaves == {InstD(d) : d \in MutDefs \cup CoreDefSet} \cup {ZCn(4), DCn(3), ZPh(U32), G(U32), G2(U32)}
Wrap(S) ==
  {Vec(t) : t \in {x \in S : ElemOk(x)}} \cup {BoxSlice(t) : t \in {x \in S : ElemOk(x)}}
  \cup {Option(t) : t \in S} \cup {Bound(t) : t \in S} \cup {G(t) : t \in S}
  \cup {Array(2, t) : t \in {x \in S : ElemOk(x)}} \cup {CFlow(t, U8) : t \in S}
HashUniverse == MutLeaves \cup Wrap(MutLeaves)
\* an operator with a parameter on purpose (not evaluated at start-up unless used)
HashTypes(extra) == HashUniverse \cup extra
AllDefs == CoreDefs \o SetToSeq(MutDefs)

=============================================================================
