CONSTANTS
  UsizeBytes = 8
  ZstUnit = 1
  VLevel = 1
  BugSliceFree = FALSE
  BugCFlowTags = FALSE
  BugOptTag = FALSE
  BugArray0 = FALSE
  BugZstSlice = FALSE
  SinkGrain = "call"
  SinkFaulty = FALSE
  MaxFaults = 0
  ReaderGrain = "call"
  ReaderFaulty = FALSE
  MaxRFaults = 0
  TypeSet = "small1"
  Pres = {0, 1, 3}
INIT Init
NEXT Next
CHECK_DEADLOCK FALSE
INVARIANTS
  PosCounts BlockAligned UnitsSane OutIsEncode OutIsPrefix FullRoundTrip EpsRoundTrip
  BorrowsInPlace RowsWithin RowsPreorder RowsAligned PaddingZero SchemaTiles SchemaTopTiles
