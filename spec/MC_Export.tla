---------------------------- MODULE MC_Export ----------------------------
(* Prints the universe (definitions, types and their predicted recipes) as *)
(* JSON lines.  gen/gen_universe.py turns this into harness/src/universe.rs *)
(* and the harness' `recipes` command compares the predictions with the    *)
(* real size_of / align_of / max_size_of / IS_ZERO_COPY / hash preimages.   *)
EXTENDS Derive, Json

CONSTANT TypeSet
VARIABLE x

TS == IF TypeSet = "grammar" THEN GrammarTypes
      ELSE TypesOf(TypeSet) \cup SerOnlyOf(TypeSet) \cup {Norm(t) : t \in SerOnlyOf(TypeSet)} \cup HashUniverse
ExportDefs == IF TypeSet = "grammar" THEN SetToSeq(GrammarDefs) ELSE AllDefs

TypeInfo(t) ==
  [rec |-> "type", key |-> Key(t), rkey |-> Key(Norm(t)), desc |-> t,
   zc |-> IsZC(t), zct |-> IsZeroCopyTrait(t), iszcconst |-> IsZCConst(t),
   mismatch |-> ZeroCopyMismatch(t),
   size |-> IF IsZC(t) THEN SizeOf(t) ELSE -1,
   align |-> IF IsZC(t) THEN AlignOf(t) ELSE -1,
   unit |-> IF IsZeroCopyTrait(t) THEN Unit(t) ELSE -1,
   th |-> TypeHashOf(t), ah |-> AlignHashOf(t),
   dshape |-> DeserShape(Norm(t)), nvals |-> Len(Values(t)), erased |-> Erase(Norm(t))]

ASSUME PrintT(ToJson([rec |-> "defs", defs |-> ExportDefs]))
ASSUME \A t \in TS : PrintT(ToJson(TypeInfo(t)))

Init == x = 0
Next == UNCHANGED x
====
