----------------------------- MODULE Universe -----------------------------
(***************************************************************************)
(* The bounded universe of types: user type *definitions* (generic, as     *)
(* the derive macro sees them), their instantiation into descriptors, the  *)
(* leaf types and the closure under the built-in constructors.             *)
(* The Rust harness universe is *generated from this module's output*      *)
(* (gen/gen_universe.py), so what is compiled and run is decided here.     *)
(***************************************************************************)
EXTENDS EpsValues

---------------------------------------------------------------------------
(* Definitions.  A generic field type is a descriptor that may contain     *)
(* [k |-> "param", i |-> n] (the n-th type parameter) and arrays whose     *)
(* length is [cp |-> n] (the n-th const parameter).                        *)
Param(i) == [k |-> "param", i |-> i]
GF(n, g) == [name |-> n, g |-> g]
GVar(n, vk, fields) == [name |-> n, vk |-> vk, fields |-> fields]
\* tparams: sequence of names; cparams: sequence of [name, ck]
DefStruct(n, zc, da, reprs, cparams, tparams, fields) ==
  [dk |-> "struct", mod |-> "", name |-> n, zc |-> zc, da |-> da, reprs |-> reprs,
   cparams |-> cparams, tparams |-> tparams, tbounds |-> [i \in 1..Len(tparams) |-> ""],
   tdefaults |-> [i \in 1..Len(tparams) |-> ""], wherec |-> "",
   fields |-> fields, variants |-> <<>>]
DefEnum(n, zc, da, reprs, cparams, tparams, variants) ==
  [dk |-> "enum", mod |-> "", name |-> n, zc |-> zc, da |-> da, reprs |-> reprs,
   cparams |-> cparams, tparams |-> tparams, tbounds |-> [i \in 1..Len(tparams) |-> ""],
   tdefaults |-> [i \in 1..Len(tparams) |-> ""], wherec |-> "",
   fields |-> <<>>, variants |-> variants]
\* bounds written on the type parameters of the definition (Rust syntax)
WithBounds(def, bs) == [def EXCEPT !.tbounds = bs]

RECURSIVE Subst(_, _, _)
Subst(g, targs, cargs) ==
  CASE g.k = "param" -> targs[g.i]
    [] g.k = "carray" -> Array(cargs[g.ci], Subst(g.elem, targs, cargs))
    [] g.k \in {"vec", "boxslice", "slice", "seriter", "option", "bound", "array", "tuple", "range"} ->
         [g EXCEPT !.elem = Subst(g.elem, targs, cargs)]
    [] g.k = "phantom" -> [g EXCEPT !.arg = Subst(g.arg, targs, cargs)]
    [] g.k = "cflow" -> [g EXCEPT !.b = Subst(g.b, targs, cargs), !.c = Subst(g.c, targs, cargs)]
    [] g.k = "htuple" -> [g EXCEPT !.elems = [i \in 1..Len(g.elems) |-> Subst(g.elems[i], targs, cargs)]]
    [] g.k = "struct" ->     \* a nested generic type whose arguments mention the parameters
         [g EXCEPT !.tps = [i \in 1..Len(g.tps) |-> [g.tps[i] EXCEPT !.arg = Subst(g.tps[i].arg, targs, cargs)]],
                   !.fields = [i \in 1..Len(g.fields) |-> [g.fields[i] EXCEPT !.ty = Subst(g.fields[i].ty, targs, cargs)]]]
    [] g.k = "enum" ->
         [g EXCEPT !.tps = [i \in 1..Len(g.tps) |-> [g.tps[i] EXCEPT !.arg = Subst(g.tps[i].arg, targs, cargs)]],
                   !.variants = [j \in 1..Len(g.variants) |->
                      [g.variants[j] EXCEPT !.fields = [i \in 1..Len(g.variants[j].fields) |->
                          [g.variants[j].fields[i] EXCEPT !.ty = Subst(g.variants[j].fields[i].ty, targs, cargs)]]]]]
    [] OTHER -> g
CArray(ci, e) == [k |-> "carray", ci |-> ci, elem |-> e]
HTuple(es) == [k |-> "htuple", elems |-> es]
StrT == [k |-> "str"]

InstFields(gfs, targs, cargs) ==
  [i \in 1..Len(gfs) |->
     Fld(gfs[i].name, Subst(gfs[i].g, targs, cargs),
         IF gfs[i].g.k = "param" THEN gfs[i].g.i ELSE 0)]

\* is parameter i the (textual) type of some field of the definition?
ParamUsed(def, i) ==
  LET fs == IF def.dk = "struct" THEN def.fields
            ELSE Cat([j \in 1..Len(def.variants) |-> def.variants[j].fields])
  IN \E j \in 1..Len(fs) : fs[j].g = Param(i)

Inst(def, targs, cargs) ==
  LET tps == [i \in 1..Len(def.tparams) |-> TP(def.tparams[i], targs[i], ParamUsed(def, i))]
      consts == [i \in 1..Len(def.cparams) |-> Cst(def.cparams[i].name, def.cparams[i].ck, cargs[i])]
      d == IF def.dk = "struct"
           THEN Struct(def.name, def.zc, def.da, def.reprs, consts, tps, InstFields(def.fields, targs, cargs))
           ELSE Enum(def.name, def.zc, def.da, def.reprs, consts, tps,
                     [j \in 1..Len(def.variants) |->
                        Var(def.variants[j].name, def.variants[j].vk,
                            InstFields(def.variants[j].fields, targs, cargs))])
  IN \* `mod` = the Rust module the definition lives in (not part of any hash, not structure)
     [x \in DOMAIN d \cup {"mod"} |-> IF x = "mod" THEN def.mod ELSE d[x]]

---------------------------------------------------------------------------
(* Core definitions (the "derived leaves").                                *)
U8 == Prim("u8")     U16 == Prim("u16")   U32 == Prim("u32")   U64 == Prim("u64")
I32 == Prim("i32")   BoolT == Prim("bool")

D_ZPad   == DefStruct("ZPad", TRUE, FALSE, <<"C">>, <<>>, <<>>,
                      <<GF("a", U8), GF("b", U32), GF("c", U16)>>)
D_ZA16   == DefStruct("ZA16", TRUE, FALSE, <<"C", "align(16)">>, <<>>, <<>>, <<GF("x", U32)>>)
D_ZA64   == DefStruct("ZA64", TRUE, FALSE, <<"C", "align(64)">>, <<>>, <<>>, <<GF("x", U32)>>)
\* 16 bytes of fields: repr(align(8)) and repr(align(16)) give the same size, only the attribute's argument differs
D_ZB16   == DefStruct("ZB16", TRUE, FALSE, <<"C", "align(16)">>, <<>>, <<>>, <<GF("lo", U64), GF("hi", U64)>>)
D_ZUnit  == DefStruct("ZUnit", TRUE, FALSE, <<"C">>, <<>>, <<>>, <<>>)
D_ZNest  == DefStruct("ZNest", TRUE, FALSE, <<"C">>, <<>>, <<>>,
                      <<GF("p", Inst(D_ZPad, <<>>, <<>>)), GF("q", U64)>>)
D_ZArr   == DefStruct("ZArr", TRUE, FALSE, <<"C">>, <<>>, <<>>,
                      <<GF("a", Array(3, U16)), GF("b", U8)>>)
D_ZT     == DefStruct("ZT", TRUE, FALSE, <<"C">>, <<>>, <<>>, <<GF("0", U8), GF("1", U64)>>)
D_ZE     == DefEnum("ZE", TRUE, FALSE, <<"C">>, <<>>, <<>>,
                    <<GVar("A", "unit", <<>>), GVar("B", "unit", <<>>), GVar("C", "unit", <<>>)>>)
D_ZEP    == DefEnum("ZEP", TRUE, FALSE, <<"C">>, <<>>, <<>>,
                    <<GVar("A", "unit", <<>>),
                      GVar("B", "tuple", <<GF("0", U8), GF("1", U64)>>),
                      GVar("C", "named", <<GF("x", U16)>>)>>)
D_ZPh    == WithBounds(DefStruct("ZPh", TRUE, FALSE, <<"C">>, <<>>, <<"A">>,
                                 <<GF("a", U32), GF("p", Phantom(Param(1)))>>),
                       <<"epserde::traits::ZeroCopy">>)
D_ZC     == DefStruct("ZC", TRUE, FALSE, <<"C">>, <<[name |-> "N", ck |-> "usize"]>>, <<>>,
                      <<GF("a", CArray(1, U8)), GF("t", U16)>>)
D_DS     == DefStruct("DS", FALSE, FALSE, <<>>, <<>>, <<>>,
                      <<GF("a", U32), GF("s", StringT), GF("v", Vec(U16))>>)
D_DZ     == DefStruct("DZ", FALSE, TRUE, <<>>, <<>>, <<>>, <<GF("a", U32), GF("b", U64)>>)
D_DT     == DefStruct("DT", FALSE, FALSE, <<>>, <<>>, <<>>, <<GF("0", U8), GF("1", Vec(U64))>>)
D_DE     == DefEnum("DE", FALSE, FALSE, <<>>, <<>>, <<>>,
                    <<GVar("U", "unit", <<>>),
                      GVar("T", "tuple", <<GF("0", U8), GF("1", StringT)>>),
                      GVar("N", "named", <<GF("x", Vec(U32)), GF("y", BoolT)>>)>>)
D_G      == DefStruct("G", FALSE, FALSE, <<>>, <<>>, <<"A">>,
                      <<GF("id", U64), GF("data", Param(1))>>)
D_G2     == DefStruct("G2", FALSE, FALSE, <<>>, <<>>, <<"A">>,
                      <<GF("v", Vec(Param(1))), GF("n", U8)>>)
D_GE     == DefEnum("GE", FALSE, FALSE, <<>>, <<>>, <<"A", "B">>,
                    <<GVar("L", "tuple", <<GF("0", Param(1))>>),
                      GVar("R", "named", <<GF("b", Option(Param(2))), GF("k", U16)>>),
                      GVar("Z", "unit", <<>>)>>)
D_DC     == DefStruct("DC", FALSE, FALSE, <<>>, <<[name |-> "N", ck |-> "usize"]>>, <<>>,
                      <<GF("a", CArray(1, U32)), GF("s", StringT)>>)

D_G3     == DefStruct("G3", FALSE, FALSE, <<>>, <<>>, <<"A", "B", "C">>,
                      <<GF("a", Param(1)), GF("b", Param(2)), GF("c", Param(3))>>)

CoreDefs == <<D_G3, D_ZPad, D_ZA16, D_ZA64, D_ZB16, D_ZUnit, D_ZNest, D_ZArr, D_ZT, D_ZE, D_ZEP, D_ZPh, D_ZC,
              D_DS, D_DZ, D_DT, D_DE, D_G, D_G2, D_GE, D_DC>>

ZPad == Inst(D_ZPad, <<>>, <<>>)    ZA16 == Inst(D_ZA16, <<>>, <<>>)
ZA64 == Inst(D_ZA64, <<>>, <<>>)
ZUnit == Inst(D_ZUnit, <<>>, <<>>)  ZNest == Inst(D_ZNest, <<>>, <<>>)
ZArr == Inst(D_ZArr, <<>>, <<>>)    ZT == Inst(D_ZT, <<>>, <<>>)
ZE == Inst(D_ZE, <<>>, <<>>)        ZEP == Inst(D_ZEP, <<>>, <<>>)
ZPh(a) == Inst(D_ZPh, <<a>>, <<>>)  ZCn(n) == Inst(D_ZC, <<>>, <<n>>)
DS == Inst(D_DS, <<>>, <<>>)        DZ == Inst(D_DZ, <<>>, <<>>)
DT == Inst(D_DT, <<>>, <<>>)        DE == Inst(D_DE, <<>>, <<>>)
G(a) == Inst(D_G, <<a>>, <<>>)      G2(a) == Inst(D_G2, <<a>>, <<>>)
GE(a, b) == Inst(D_GE, <<a, b>>, <<>>)
DCn(n) == Inst(D_DC, <<>>, <<n>>)
G3(a, b, c) == Inst(D_G3, <<a, b, c>>, <<>>)

---------------------------------------------------------------------------
(* Key(T): the Rust type expression; the name under which the harness      *)
(* universe dispatches.                                                    *)
NumStr(n) == ToString(n)
RECURSIVE Key(_), KeyList(_, _)
KeyList(ts, i) == IF i > Len(ts) THEN "" ELSE Key(ts[i]) \o "," \o KeyList(ts, i + 1)
ModPrefix(T) == IF T.mod = "" THEN "" ELSE T.mod \o "::"
RECURSIVE ConstKeys(_, _)
ConstKeys(cs, i) == IF i > Len(cs) THEN "" ELSE NumStr(cs[i].val) \o "," \o ConstKeys(cs, i + 1)
RECURSIVE RepStr(_, _)
RepStr(s, n) == IF n = 0 THEN "" ELSE s \o RepStr(s, n - 1)
Key(T) ==
  CASE T.k = "prim" -> T.name
    [] T.k = "hw" -> "HW"
    [] T.k = "unit" -> "()"
    [] T.k = "rangefull" -> "RangeFull"
    [] T.k = "string" -> "String"
    [] T.k = "boxstr" -> "Box<str>"
    [] T.k = "str" -> "str"
    [] T.k = "phantom" -> "PhantomData<" \o Key(T.arg) \o ">"
    [] T.k = "htuple" -> "(" \o KeyList(T.elems, 1) \o ")"
    [] T.k = "vec" -> "Vec<" \o Key(T.elem) \o ">"
    [] T.k = "boxslice" -> "Box<[" \o Key(T.elem) \o "]>"
    [] T.k = "slice" -> "&[" \o Key(T.elem) \o "]"
    [] T.k = "seriter" -> "SerIter<" \o Key(T.elem) \o ">"
    [] T.k = "array" -> "[" \o Key(T.elem) \o ";" \o NumStr(T.n) \o "]"
    [] T.k = "tuple" -> "(" \o RepStr(Key(T.elem) \o ",", T.n) \o ")"
    [] T.k = "option" -> "Option<" \o Key(T.elem) \o ">"
    [] T.k = "bound" -> "Bound<" \o Key(T.elem) \o ">"
    [] T.k = "cflow" -> "ControlFlow<" \o Key(T.b) \o "," \o Key(T.c) \o ">"
    [] T.k = "range" -> T.rk \o "<" \o Key(T.elem) \o ">"
    [] T.k \in {"struct", "enum"} ->
         IF T.tps = <<>> /\ T.consts = <<>> THEN ModPrefix(T) \o T.name
         ELSE ModPrefix(T) \o T.name \o "<" \o KeyList([i \in 1..Len(T.tps) |-> T.tps[i].arg], 1)
              \o ConstKeys(T.consts, 1) \o ">"

---------------------------------------------------------------------------
(* Leaves and closure.  Level selects how much of the universe is taken.   *)
AllPrims == {Prim(n) : n \in PrimNames}
QuickPrims == {Prim(n) : n \in {"u8", "u16", "u32", "u64", "u128", "usize", "i8", "i64",
                                  "f32", "f64", "bool", "char", "NonZeroU8", "NonZeroU64", "NonZeroI32"}}
SmallPrims == {Prim(n) : n \in {"u8", "u32", "u64", "bool"}}

ZstLeaves == {UnitT, RangeFullT, Phantom(U32)}
StrLeaves == {StringT, BoxStrT}
RangeLeaves == {Range(rk, e) : rk \in RangeKinds, e \in {U32, U64}} \cup {Range("RangeTo", U8)}
ZcDerived == {ZPad, ZA16, ZA64, ZUnit, ZNest, ZArr, ZT, ZE, ZEP, ZPh(U16), ZCn(3), ZCn(0)}
DeepDerived == {DS, DZ, DT, DE, DCn(2)}
OtherPhantoms == {Phantom(StrT), Phantom(HTuple(<<U8, StringT>>)), Phantom(Vec(U8))}

LeavesFull == AllPrims \cup ZstLeaves \cup StrLeaves \cup RangeLeaves \cup ZcDerived
              \cup DeepDerived \cup OtherPhantoms
LeavesQuick == QuickPrims \cup ZstLeaves \cup StrLeaves \cup RangeLeaves \cup ZcDerived \cup DeepDerived
\* the reduced leaf set used at depth 2 and in the machine configurations
LeavesSmall == SmallPrims \cup {UnitT, StringT, ZPad, ZA16, ZA64, ZE, DS, DE, Range("RangeTo", U32), Range("RangeInclusive", U64)}

\* tuples need a ZeroCopy element; arrays/sequences an element that is ZeroCopy or DeepCopy
TupleOk(t) == IsZeroCopyTrait(t)
\* A zero-copy `Copy` type whose IsZC and IsCopy disagree cannot be an element at all
ElemOk(t) == CanBeElem(t) /\ (IsZC(t) => IsCopy(t))

Close(S, cfS) ==
  S \cup {Vec(t) : t \in {x \in S : ElemOk(x)}}
    \cup {BoxSlice(t) : t \in {x \in S : ElemOk(x)}}
    \cup {Array(n, t) : n \in {0, 1, 3}, t \in {x \in S : ElemOk(x)}}
    \cup {Tuple(n, t) : n \in {1, 2, 3}, t \in {x \in S : TupleOk(x)}}
    \cup {Option(t) : t \in S} \cup {Bound(t) : t \in S}
    \cup {CFlow(b, c) : b \in cfS, c \in S} \cup {CFlow(b, c) : b \in S, c \in cfS}
    \cup {G(t) : t \in S} \cup {G2(t) : t \in {x \in S : ElemOk(x)}}
    \cup {GE(t, U8) : t \in S} \cup {GE(StringT, t) : t \in S}
    \* every type in an ε-copied position (a type-parameter field) *followed by more data*
    \cup {G3(t, U8, Vec(U32)) : t \in S}

CfSmall == {U8, StringT}

\* serialize-only sources (never nested inside sequences: &[T] has no deserializer)
SerOnly(S) == {Slice(t) : t \in {x \in S : ElemOk(x)}}
              \cup {SerIter(t) : t \in {x \in S : ElemOk(x) /\ IsZeroCopyTrait(x)}}
              \cup {G(Slice(t)) : t \in {x \in S : ElemOk(x)}}
              \cup {G(SerIter(t)) : t \in {x \in S : ElemOk(x) /\ IsZeroCopyTrait(x)}}
              \* a slice of slices (deep-copy items that are themselves slice references): the vector of vectors
              \cup {Slice(Slice(U16)), Slice(Slice(U64)), Slice(Slice(ZPad))}

\* nested types in which an ε-copied (borrowed) sequence is followed by more data
U128 == Prim("u128")
Nested ==
  {Vec(Vec(U16)), Vec(Vec(U64)), Vec(Vec(U128)), Vec(Vec(ZPad)), Vec(BoxSlice(U32)), BoxSlice(Vec(ZA16)),
   Array(3, Vec(U32)), Vec(Option(Vec(U64))), Option(Vec(Vec(U16))), Vec(G(Vec(U32))),
   G3(Vec(U32), Vec(U64), StringT), G3(Vec(U16), BoxSlice(ZPad), Vec(U8)), G3(StringT, Vec(U128), Vec(ZA16)),
   G3(Vec(U64), U8, Vec(U32)), GE(Vec(U32), Vec(U64)),
   \* wide alignment units: gaps of more than 16 bytes, followed by blocks of a smaller unit
   G3(StringT, Vec(ZA64), Vec(U64)), G3(Vec(U8), BoxSlice(ZA64), Vec(U32)), Vec(Option(ZA64)), G3(U8, ZA64, Vec(U16)),
   \* sequences of deep-copy items that take no byte in the stream: more items than remaining bytes
   Vec(Array(0, StringT)), BoxSlice(Array(0, Vec(U32))), Vec(Array(0, DS)),
   G3(Vec(Array(0, StringT)), U8, Vec(U32)), G3(BoxSlice(Array(0, Vec(U32))), Vec(U16), U8)}

\* Named universes.  An operator with a parameter, on purpose: TLC evaluates every
\* zero-arity constant definition at start-up, and the big closures cost minutes.
TypesOf(name) ==
  CASE name = "small1" -> Close(LeavesSmall, CfSmall) \cup Nested
    [] name = "quick1" -> Close(LeavesQuick, CfSmall) \cup Nested
    [] name = "full1"  -> Close(LeavesFull, CfSmall) \cup Nested
    [] name = "small2" -> Close(Close(LeavesSmall, CfSmall), CfSmall) \cup Nested
    [] name = "all"    -> Close(LeavesFull, CfSmall) \cup Close(Close(LeavesSmall, CfSmall), CfSmall) \cup Nested
    [] name = "tiny"   -> {Vec(ZPad), G(Vec(U32)), Option(StringT), DE, ZEP, Array(3, ZA16)}
SerOnlyOf(name) ==
  CASE name \in {"small1", "small2"} -> SerOnly(LeavesSmall)
    [] name = "quick1" -> SerOnly(LeavesQuick)
    [] OTHER -> SerOnly(LeavesFull)

=============================================================================
