---------------------------- MODULE MC_MemCase ----------------------------
(* Exhaustive configuration of MemCase.tla: every loader x flag set x       *)
(* failure cause x file-length residue, and every owner history up to       *)
(* MaxSteps; terminal states are printed as cases for the harness.          *)
EXTENDS MemCase, Json

CONSTANTS LoaderSet, FlagSet, CauseSet, LenSet

VARIABLE ops
allv == <<mvars, ops>>

Init == MInit(LoaderSet, FlagSet, CauseSet, LenSet) /\ ops = <<>>
         /\ (loader \in {"load_full", "load_mem", "encase"} => flags = 0)
         /\ (loader = "encase" => (cause = "valid" /\ prior = "absent"))
Lab(a, name) == a /\ ops' = Append(ops, name)
Next ==
  \/ (Store \/ PreCheck \/ Encase \/ Stat \/ Alloc \/ Advise \/ ReadFill \/ ReadFail \/ DropLocal \/ Wrap \/ Deser \/ Return) /\ UNCHANGED ops
  \/ Lab(Move, "move") \/ Lab(BoxIt, "box") \/ Lab(Unbox, "unbox") \/ Lab(SendTo, "send") \/ Lab(SendBack, "back")
  \/ Lab(ShareArc, "arc") \/ Lab(Unshare, "unarc")
  \/ (ReaderEnter \/ ReaderLeave) /\ UNCHANGED ops
  \/ (DropS \/ DropB) /\ UNCHANGED ops

Terminal == owner = "dropped" \/ (pcl = "done" /\ result # "ok")
Beh == [prior |-> prior, loader |-> loader, flags |-> flags, cause |-> cause, flen |-> flen, result |-> result, ops |-> ops,
        round |-> RoundOf(loader), kind |-> RegionKind(loader), dropped_in |-> IF ops # <<>> /\ ops[Len(ops)] = "send" THEN "thread" ELSE "here"]
EmitM == Terminal => PrintT(ToJson(Beh))
====
