------------------------------ MODULE MemCase ------------------------------
(***************************************************************************)
(* The file loaders (deser/mod.rs: load_full, load_mem, load_mmap, mmap)   *)
(* and the life cycle of the MemCase they return (deser/mem_case.rs), one  *)
(* action per step of the code: stat, pre-check, open, allocate / map,     *)
(* read, zero the tail, write the backend into the uninitialised case,     *)
(* ε-copy deserialize from it, write the structure, return; then the       *)
(* owner's moves, boxing, sends to threads, shared reads, and the drop     *)
(* (structure first, then backend).                                        *)
(*                                                                         *)
(* Ghost variables count what the process holds: live heap regions and     *)
(* live mappings created by the loader, and how often each was released.   *)
(***************************************************************************)
EXTENDS Naturals, Integers, Sequences, FiniteSets, TLC

CONSTANTS
  MaxSteps,        \* bound on the number of owner operations after a successful load
  BugNoTruncate,   \* TRUE = store() does not truncate an existing longer file
  BugLeakOnError   \* TRUE = pinned tree: `?` after the backend was written into the MaybeUninit leaks it (defect #6)

\* "encase" = MemCase::encase / From<S>: a structure built in memory, wrapped with the `None` backend (no file)
Loaders == {"load_full", "load_mem", "load_mmap", "mmap", "encase"}
NoBackend(l) == l \in {"load_full", "encase"}
\* "isdir": the path is a directory - metadata() and File::open succeed, the first read fails (EISDIR), mmap fails
Causes == {"valid", "wrongtype", "wrongalign", "corrupt", "trunc", "empty", "missing", "bigalign", "isdir"}
\* rounding unit of the backing region's capacity
RoundOf(l) == CASE l = "load_mem" -> 64 [] l = "load_mmap" -> 16 [] OTHER -> 1
RegionKind(l) == CASE l = "load_mem" -> "heap" [] l \in {"load_mmap", "mmap"} -> "map" [] OTHER -> "none"

MPad(v, u) == (u - (v % u)) % u

VARIABLES
  prior,        \* what was at the path before store(): "absent" | "shorter" | "longer"
  fileIs,       \* ghost: "none" before store(); then "exact" (exactly the serialized bytes) | "stale-tail"
  loader, flags, cause, flen,   \* the configuration (constant during a run)
  pcl,          \* program counter of the loader
  region,       \* [kind, cap, state ("none" | "live" | "released"), releases, tailzero, prot ("rw" | "r")]
  advised,      \* how many madvise() calls have been issued on the mapping (Flags -> kernel advice)
  caseB, caseS, \* which halves of the MaybeUninit<MemCase> have been written
  result,       \* "pending" | "ok" | name of the error | "panic"
  owner,        \* where the returned case lives: "none" | "stack" | "box" | "thread" | "arc" | "dropped"
  readers,      \* number of other threads currently holding a shared reference (arc)
  sDropped,     \* the structure half has been dropped
  order,        \* history of release events: sequence of "S" / "B"
  steps         \* number of owner operations performed

mvars == <<prior, fileIs, loader, flags, cause, flen, pcl, region, advised, caseB, caseS, result, owner, readers, sDropped, order, steps>>

NoRegion == [kind |-> "none", cap |-> 0, state |-> "none", releases |-> 0, tailzero |-> TRUE, prot |-> "rw"]

\* Flags (bit 0 TRANSPARENT_HUGE_PAGES, bit 1 SEQUENTIAL, bit 2 RANDOM_ACCESS) -> mmap_rs::MmapFlags -> the
\* madvise() calls mmap-rs issues on the fresh mapping, in this order (Flags::mmap_flags, mmap-rs unix.rs)
Bit(f, i) == (f \div (2 ^ i)) % 2 = 1
AdviceOf(f) == (IF Bit(f, 0) THEN <<"HUGEPAGE">> ELSE <<>>) \o (IF Bit(f, 1) THEN <<"SEQUENTIAL">> ELSE <<>>)
               \o (IF Bit(f, 2) THEN <<"RANDOM">> ELSE <<>>)

MInit(L, F, C, N) ==
  /\ prior \in {"absent", "shorter", "longer"} /\ fileIs = "none"
  /\ loader \in L /\ flags \in F /\ cause \in C /\ flen \in N
  /\ pcl = "store" /\ region = NoRegion /\ advised = 0 /\ caseB = FALSE /\ caseS = FALSE
  /\ result = "pending" /\ owner = "none" /\ readers = 0 /\ sDropped = FALSE /\ order = <<>> /\ steps = 0

\* a header cut short and zero-extended can fail any of the header checks
HeaderErrors == {"MagicCookieError", "EndiannessError", "MajorVersionMismatch", "MinorVersionMismatch", "UsizeSizeMismatch",
                 "WrongTypeHash", "WrongAlignHash"}
\* what ε-copy deserialization of the region's bytes yields, by failure cause
DeserOutcome ==
  CASE cause = "valid" -> {"ok"}
    [] cause = "wrongtype" -> {"WrongTypeHash"}
    [] cause = "wrongalign" -> {"WrongAlignHash"}
    [] cause = "corrupt" -> {"MagicCookieError"}
    [] cause = "empty" -> {"ReadError"}
    [] cause = "isdir" -> {"ReadError"}       \* (load_full only: the other loaders fail before deserializing)
    \* a truncated file: the copying loaders zero-extend it, so it may even parse; mapping it does not
    [] cause = "trunc" -> IF loader \in {"load_mem", "load_mmap"}
                          THEN {"ok", "ReadError", "panic", "AlignmentError"} \cup HeaderErrors
                          ELSE {"ReadError", "panic"}
    [] OTHER -> {"ok"}

Fin(res) == result' = res /\ pcl' = "done"
\* the length of the file on disk: `flen` for a complete file, 0 for an empty one
EffLen == IF cause = "empty" THEN 0 ELSE flen

\* Serialize::store: File::create truncates whatever was there, BufWriter, serialize, flush
\* (BugNoTruncate: the file is opened without truncation, a longer old file leaves a stale tail)
Store ==
  /\ pcl = "store"
  /\ fileIs' = IF prior = "longer" /\ BugNoTruncate THEN "stale-tail" ELSE "exact"
  /\ pcl' = "start"
  /\ UNCHANGED <<prior, loader, flags, cause, flen, region, caseB, caseS, result, owner, readers, sDropped, order, steps, advised>>

\* Deserialize::load_mem pre-check: align_of::<Self>() > align_of::<MemoryAlignment>()
PreCheck ==
  /\ pcl = "start" /\ loader # "encase"
  /\ IF loader = "load_mem" /\ cause = "bigalign"
     THEN Fin("AlignmentError") /\ UNCHANGED <<region, caseB, caseS, owner, advised>>
     ELSE pcl' = "stat" /\ UNCHANGED <<result, region, caseB, caseS, owner, advised>>
  /\ UNCHANGED <<prior, fileIs, loader, flags, cause, flen, readers, sDropped, order, steps, advised>>

\* MemCase::encase(s): MemCase(s, MemBackend::None) - nothing is read, nothing is created
Encase ==
  /\ pcl = "start" /\ loader = "encase"
  /\ caseS' = TRUE /\ pcl' = "ret"
  /\ UNCHANGED <<prior, fileIs, loader, flags, cause, flen, region, advised, caseB, result, owner, readers, sDropped, order, steps>>

\* metadata() / File::open
Stat ==
  /\ pcl = "stat"
  /\ IF cause = "missing"
     THEN Fin(IF loader = "load_full" THEN "FileOpenError" ELSE "Io") /\ UNCHANGED <<region, caseB, caseS, owner, advised>>
     ELSE pcl' = (IF loader = "load_full" THEN "deser" ELSE "alloc") /\ UNCHANGED <<result, region, caseB, caseS, owner, advised>>
  /\ UNCHANGED <<prior, fileIs, loader, flags, cause, flen, readers, sDropped, order, steps, advised>>

\* std::alloc::alloc / MmapOptions::map_mut / MmapOptions::with_file().map()
Alloc ==
  /\ pcl = "alloc"
  /\ LET cap == EffLen + MPad(EffLen, RoundOf(loader))
     IN IF RegionKind(loader) = "map" /\ (cap = 0 \/ (loader = "mmap" /\ cause = "isdir"))
        THEN \* a zero-length mapping (or the mapping of a directory) is refused by the kernel: nothing was created
             Fin("Io") /\ UNCHANGED region
        ELSE /\ region' = [kind |-> RegionKind(loader), cap |-> cap, state |-> "live", releases |-> 0,
                           tailzero |-> (loader = "mmap"), prot |-> (IF loader = "mmap" THEN "r" ELSE "rw")]
             /\ pcl' = (IF RegionKind(loader) = "map" THEN "advise" ELSE "read") /\ UNCHANGED result
  /\ UNCHANGED <<prior, fileIs, loader, flags, cause, flen, caseB, caseS, owner, readers, sDropped, order, steps, advised>>

\* mmap-rs: one madvise(addr, cap, advice) per requested flag, right after the mapping was created
Advise ==
  /\ pcl = "advise"
  /\ IF advised < Len(AdviceOf(flags))
     THEN advised' = advised + 1 /\ UNCHANGED pcl
     ELSE pcl' = (IF loader = "mmap" THEN "wrap" ELSE "read") /\ UNCHANGED advised
  /\ UNCHANGED <<prior, fileIs, loader, flags, cause, flen, region, caseB, caseS, result, owner, readers, sDropped, order, steps>>

\* file.read_exact(&mut bytes[..file_len]) then bytes[file_len..].fill(0); the region is still a local:
\* an error here drops it normally
ReadFill ==
  /\ pcl = "read" /\ cause # "isdir"
  /\ region' = [region EXCEPT !.tailzero = TRUE] /\ pcl' = "wrap"
  /\ UNCHANGED <<prior, fileIs, loader, flags, cause, flen, caseB, caseS, result, owner, readers, sDropped, order, steps, advised>>

\* file.read_exact(..)? fails (the path is a directory): the function returns early; the region is still a local
\* of the function and is dropped on the way out
ReadFail ==
  /\ pcl = "read" /\ cause = "isdir" /\ pcl' = "readfail"
  /\ UNCHANGED <<prior, fileIs, loader, flags, cause, flen, region, advised, caseB, caseS, result, owner, readers, sDropped, order, steps>>
DropLocal ==
  /\ pcl = "readfail" /\ Fin("ReadError")     \* (read_exact is ε-serde's ReadNoStd method: its error is Error::ReadError)
  /\ region' = [region EXCEPT !.state = "released", !.releases = @ + 1] /\ order' = Append(order, "B")
  /\ UNCHANGED <<prior, fileIs, loader, flags, cause, flen, advised, caseB, caseS, owner, readers, sDropped, steps>>

\* addr_of_mut!((*ptr).1).write(backend): from here on the region is owned by the uninitialised case
Wrap ==
  /\ pcl = "wrap" /\ caseB' = TRUE /\ pcl' = "deser"
  /\ region' = IF loader = "load_mmap" THEN [region EXCEPT !.prot = "r"] ELSE region   \* mmap.make_read_only()
  /\ UNCHANGED <<prior, fileIs, loader, flags, cause, flen, caseS, result, owner, readers, sDropped, order, steps, advised>>

\* Self::deserialize_eps(mem)? (load_full: deserialize_full of the file)
Deser ==
  /\ pcl = "deser"
  /\ \E out \in DeserOutcome :
       IF out = "ok"
       THEN /\ caseS' = TRUE /\ pcl' = "ret" /\ UNCHANGED <<result, region, order, advised>>
       ELSE \* the error path: the backend written into the MaybeUninit must be released
            /\ Fin(out) /\ UNCHANGED caseS
            /\ IF caseB /\ ~BugLeakOnError
               THEN region' = [region EXCEPT !.state = "released", !.releases = @ + 1] /\ order' = Append(order, "B")
               ELSE UNCHANGED <<region, order, advised>>
  /\ UNCHANGED <<prior, fileIs, loader, flags, cause, flen, caseB, owner, readers, sDropped, steps, advised>>

\* Ok(uninit.assume_init())
Return ==
  /\ pcl = "ret" /\ Fin("ok") /\ owner' = "stack"
  /\ UNCHANGED <<prior, fileIs, loader, flags, cause, flen, region, caseB, caseS, readers, sDropped, order, steps, advised>>

(* ---- the owner ---- *)
Owned == result = "ok" /\ owner \notin {"none", "dropped"} /\ ~sDropped
OwnerStep(o) ==
  /\ Owned /\ readers = 0 /\ steps < MaxSteps /\ owner' = o /\ steps' = steps + 1
  /\ UNCHANGED <<prior, fileIs, loader, flags, cause, flen, pcl, region, caseB, caseS, result, readers, sDropped, order, advised>>
Move == OwnerStep(owner)                      \* a move changes the address of the case, nothing else
BoxIt == owner = "stack" /\ OwnerStep("box")
Unbox == owner = "box" /\ OwnerStep("stack")
SendTo == OwnerStep("thread")                 \* moved into another thread
SendBack == owner = "thread" /\ OwnerStep("stack")
ShareArc == owner = "stack" /\ OwnerStep("arc")
ReaderEnter == /\ Owned /\ owner = "arc" /\ readers < 2 /\ readers' = readers + 1
               /\ UNCHANGED <<prior, fileIs, loader, flags, cause, flen, pcl, region, caseB, caseS, result, owner, sDropped, order, steps, advised>>
ReaderLeave == /\ Owned /\ readers > 0 /\ readers' = readers - 1
               /\ UNCHANGED <<prior, fileIs, loader, flags, cause, flen, pcl, region, caseB, caseS, result, owner, sDropped, order, steps, advised>>
Unshare == owner = "arc" /\ readers = 0 /\ OwnerStep("stack")   \* Arc::try_unwrap

\* drop(MemCase): fields in declaration order: the structure, then the backend
DropS ==
  /\ Owned /\ readers = 0 /\ sDropped' = TRUE /\ order' = Append(order, "S")
  /\ UNCHANGED <<prior, fileIs, loader, flags, cause, flen, pcl, region, caseB, caseS, result, owner, readers, steps, advised>>
DropB ==
  /\ result = "ok" /\ sDropped /\ owner # "dropped"
  /\ owner' = "dropped" /\ order' = Append(order, "B")
  /\ region' = IF region.state = "live" THEN [region EXCEPT !.state = "released", !.releases = @ + 1] ELSE region
  /\ UNCHANGED <<prior, fileIs, loader, flags, cause, flen, pcl, caseB, caseS, result, readers, sDropped, steps, advised>>

MNext ==
  \/ Store \/ PreCheck \/ Encase \/ Stat \/ Alloc \/ Advise \/ ReadFill \/ ReadFail \/ DropLocal \/ Wrap \/ Deser \/ Return
  \/ Move \/ BoxIt \/ Unbox \/ SendTo \/ SendBack \/ ShareArc \/ ReaderEnter \/ ReaderLeave \/ Unshare
  \/ DropS \/ DropB

---------------------------------------------------------------------------
(* C08: store writes exactly the serialized bytes, whatever was at the path *)
StoreExact == pcl # "store" => fileIs = "exact"
(* C08: the region a successful loader returns *)
RegionSound ==
  (result = "ok" /\ owner # "dropped" /\ ~NoBackend(loader)) =>
     /\ region.state = "live"
     /\ region.cap = EffLen + MPad(EffLen, RoundOf(loader))
     /\ region.cap >= EffLen
     /\ (loader \in {"load_mem", "load_mmap"} => region.tailzero)
\* the region is live whenever anything can read through the structure
LiveWhileReadable == (Owned \/ readers > 0) => (NoBackend(loader) \/ region.state = "live")
\* a case without a backend never has a region
NoBackendNoRegion == NoBackend(loader) => region = NoRegion

\* (beyond the listed properties) every requested advice was given before the region is used, and a mapping
\* handed to the caller is read-only
AdviceGiven == (region.kind = "map" /\ pcl \in {"read", "wrap", "deser", "ret", "done"} /\ region.state # "none")
                  => advised = Len(AdviceOf(flags))
MappingReadOnly == (result = "ok" /\ region.kind = "map") => region.prot = "r"

(* C09 *)
ReleasedAtMostOnce == region.releases <= 1
NoLeakOnFailure == (pcl = "done" /\ result # "ok") => region.state # "live"
ReleasedWhenDropped == owner = "dropped" => (region.kind = "none" \/ (region.state = "released" /\ region.releases = 1))
StructureBeforeBackend == \A i \in 1..Len(order) : order[i] = "B" => (result # "ok" \/ \E j \in 1..(i - 1) : order[j] = "S")
=============================================================================
