CONSTANTS
  UsizeBytes = 8
  ZstUnit = 0
  VLevel = 1
  BugSliceFree = TRUE
  BugCFlowTags = TRUE
  BugOptTag = TRUE
  BugArray0 = TRUE
  BugZstSlice = TRUE
  SinkGrain = "call"
  SinkFaulty = FALSE
  MaxFaults = 0
  ReaderGrain = "call"
  ReaderFaulty = FALSE
  MaxRFaults = 0
  TypeSet = "tiny"
  Pres = {0, 1, 3}
INIT Init
NEXT Next
CHECK_DEADLOCK FALSE
INVARIANTS
  PosCounts BlockAligned

