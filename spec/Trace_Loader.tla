---------------------------- MODULE Trace_Loader ----------------------------
(***************************************************************************)
(* Trace validation of the file loaders and of the MemCase life cycle at   *)
(* the level of system calls (implementation -> specification).            *)
(*                                                                         *)
(* The harness runs store() and one of load_full / load_mem / load_mmap /   *)
(* mmap of the real library, then the owner's operations and the drop,      *)
(* under `strace -f`.  The recorded events are the system calls that touch *)
(* the case file or the backing region (openat, write, statx, mmap,         *)
(* madvise, read, mprotect, close, munmap), the calls of the global         *)
(* allocator with the alignment of MemoryAlignment (marker system calls     *)
(* issued by the harness's allocator at the moment of the call), and        *)
(* markers around the phases (case, store, stored, load, returned +         *)
(* loaded:<result>,                                                        *)
(* op:<owner operation>, sdrop = the structure's Drop ran, dropped).        *)
(* Addresses are renamed to small integers by first appearance.             *)
(*                                                                         *)
(* Every event must be the next step of MemCase.tla with the logged         *)
(* parameters (lengths, protection, advice, address); steps that make no    *)
(* call are taken silently.                                                 *)
(***************************************************************************)
EXTENDS MemCase, Json, IOUtils

Rec == ndJsonDeserialize(IOEnv.TRACE)
VARIABLES l,        \* next line of the trace
          addr,     \* the (renamed) address of the backing region
          canary,   \* the structure announces its own drop (an `sdrop` event)
          wrote     \* bytes written by store()
tlvars == <<mvars, l, addr, canary, wrote>>
Ev == Rec[l]
HasEv(kind) == l <= Len(Rec) /\ Ev.ev = kind
Consume == l' = l + 1
Keep == UNCHANGED <<addr, canary, wrote>>

TInit ==
  /\ l = 1 /\ addr = 0 /\ canary = FALSE /\ wrote = 0 /\ TLCSet(42, 1)
  /\ prior = "absent" /\ fileIs = "none" /\ loader = "load_full" /\ flags = 0 /\ cause = "valid" /\ flen = 0
  /\ pcl = "idle" /\ region = NoRegion /\ advised = 0 /\ caseB = FALSE /\ caseS = FALSE
  /\ result = "pending" /\ owner = "none" /\ readers = 0 /\ sDropped = FALSE /\ order = <<>> /\ steps = 0

\* a new case: the configuration is what the harness was asked to run
TCase ==
  /\ HasEv("case") /\ pcl = "idle" /\ Consume
  /\ prior' = Ev.prior /\ fileIs' = "none" /\ loader' = Ev.loader /\ flags' = Ev.flags /\ cause' = Ev.cause /\ flen' = Ev.flen
  /\ pcl' = "store" /\ region' = NoRegion /\ advised' = 0 /\ caseB' = FALSE /\ caseS' = FALSE
  /\ result' = "pending" /\ owner' = "none" /\ readers' = 0 /\ sDropped' = FALSE /\ order' = <<>> /\ steps' = 0
  /\ addr' = 0 /\ canary' = Ev.canary /\ wrote' = 0

(* ---- store(): openat(O_CREAT [| O_TRUNC]), write*, close ---- *)
\* the model's Store with the truncation the call really asked for
TCreate ==
  /\ HasEv("create") /\ pcl = "store" /\ Consume
  /\ fileIs' = IF prior = "longer" /\ ~Ev.trunc THEN "stale-tail" ELSE "exact"
  /\ pcl' = "storing" /\ Keep
  /\ UNCHANGED <<prior, loader, flags, cause, flen, region, advised, caseB, caseS, result, owner, readers, sDropped, order, steps>>
TWrite ==
  /\ HasEv("fwrite") /\ pcl = "storing" /\ Consume /\ wrote' = wrote + Ev.n
  /\ UNCHANGED <<mvars, addr, canary>>
\* the marker after store() returned: the file holds exactly what was written (its length is reported by the harness)
TStored ==
  /\ HasEv("stored") /\ pcl = "storing" /\ Consume /\ wrote = Ev.slen /\ fileIs = "exact"
  /\ pcl' = "start" /\ Keep
  /\ UNCHANGED <<prior, fileIs, loader, flags, cause, flen, region, advised, caseB, caseS, result, owner, readers, sDropped, order, steps>>

(* ---- the loader ---- *)
TLoad == HasEv("load") /\ Consume /\ PreCheck /\ Keep
\* the path is a directory: nothing was stored
TLoadDir ==
  /\ HasEv("load") /\ cause = "isdir" /\ pcl = "store" /\ Consume /\ Keep
  /\ fileIs' = "exact" /\ pcl' = "stat"
  /\ UNCHANGED <<prior, loader, flags, cause, flen, region, advised, caseB, caseS, result, owner, readers, sDropped, order, steps>>
\* the read() on a directory fails; the region is dropped as a local of the loader
TReadFail ==
  /\ HasEv("read") /\ ~Ev.ok /\ loader # "load_full" /\ Consume /\ Keep /\ ReadFail
\* encase: there is no file and no store(); the structure is wrapped without any call
TEncase ==
  /\ HasEv("load") /\ loader = "encase" /\ pcl = "store" /\ Consume /\ Keep
  /\ caseS' = TRUE /\ pcl' = "ret" /\ fileIs' = "exact"
  /\ UNCHANGED <<prior, loader, flags, cause, flen, region, advised, caseB, result, owner, readers, sDropped, order, steps>>
\* path.metadata(): statx on the case path
TStat ==
  /\ HasEv("stat") /\ pcl = "stat" /\ loader # "load_full" /\ Consume /\ Keep
  /\ Ev.ok = (cause # "missing") /\ (Ev.ok => Ev.size = EffLen)
  /\ Stat
\* File::open: for load_full it is the model's Stat step; for the others it follows the metadata() call
TOpen ==
  /\ HasEv("open") /\ Consume /\ Keep
  /\ Ev.rdonly
  /\ IF loader = "load_full"
     THEN pcl = "stat" /\ Ev.ok = (cause # "missing") /\ Stat
     ELSE pcl = "alloc" /\ Ev.ok /\ UNCHANGED mvars
\* mmap(NULL, len, prot, flags, fd, 0)
TMap ==
  /\ HasEv("map") /\ pcl = "alloc" /\ RegionKind(loader) = "map" /\ Consume
  /\ Alloc /\ region'.state = "live"
  /\ Ev.len = region'.cap /\ Ev.anon = (loader = "load_mmap") /\ Ev.prot = region'.prot /\ Ev.off = 0
  /\ addr' = Ev.addr /\ UNCHANGED <<canary, wrote>>
\* the global allocator: alloc(Layout { size, align })
THeapAlloc ==
  /\ HasEv("halloc") /\ pcl = "alloc" /\ loader = "load_mem" /\ Consume
  /\ Alloc /\ region'.state = "live"
  /\ Ev.size = region'.cap /\ Ev.align = RoundOf("load_mem")
  /\ addr' = Ev.addr /\ UNCHANGED <<canary, wrote>>
\* a region of zero bytes needs no call of the allocator (addr stays 0: no call was seen)
TNoHeapAlloc ==
  /\ pcl = "alloc" /\ loader = "load_mem" /\ EffLen = 0 /\ ~HasEv("halloc") /\ Alloc /\ UNCHANGED <<l, addr, canary, wrote>>
\* a zero-length mapping is refused before any system call
TNoMap ==
  /\ pcl = "alloc" /\ RegionKind(loader) = "map" /\ (EffLen = 0 \/ (loader = "mmap" /\ cause = "isdir"))
  /\ Alloc /\ result' # "pending" /\ UNCHANGED <<l, addr, canary, wrote>>
\* madvise(addr, len, advice): the next advice of the flag table, on the whole region
TAdvise ==
  /\ HasEv("advise") /\ pcl = "advise" /\ advised < Len(AdviceOf(flags)) /\ Consume /\ Keep
  /\ Ev.advice = AdviceOf(flags)[advised + 1] /\ Ev.addr = addr /\ Ev.len = region.cap /\ Ev.ok
  /\ Advise
TAdviseDone ==
  /\ pcl = "advise" /\ advised = Len(AdviceOf(flags)) /\ Advise /\ UNCHANGED <<l, addr, canary, wrote>>
\* file.read_exact(..file_len): the read() calls on the case file, merged
TRead ==
  /\ HasEv("read") /\ Consume /\ Keep
  /\ IF loader = "load_full"
     THEN pcl = "deser" /\ Ev.got <= EffLen /\ UNCHANGED mvars
     ELSE pcl = "read" /\ Ev.got = EffLen /\ Ev.want = EffLen /\ ReadFill
\* (a file of length zero needs no read() call)
TNoRead == pcl = "read" /\ EffLen = 0 /\ ReadFill /\ UNCHANGED <<l, addr, canary, wrote>>
\* mprotect(addr, len, PROT_READ): make_read_only(), part of the model's Wrap
TProtect ==
  /\ HasEv("protect") /\ pcl = "wrap" /\ loader = "load_mmap" /\ Consume /\ Keep
  /\ Ev.addr = addr /\ Ev.len = region.cap /\ Ev.prot = "r"
  /\ Wrap
TWrapSilent == pcl = "wrap" /\ loader # "load_mmap" /\ Wrap /\ UNCHANGED <<l, addr, canary, wrote>>
TClose == HasEv("close") /\ Consume /\ Keep /\ UNCHANGED mvars

\* ε-copy deserialization succeeded / the structure was written / the call returned: no call on the system
DeserOk ==
  /\ pcl = "deser" /\ "ok" \in DeserOutcome
  /\ caseS' = TRUE /\ pcl' = "ret"
  /\ UNCHANGED <<prior, fileIs, loader, flags, cause, flen, region, advised, caseB, result, owner, readers, sDropped, order, steps>>
\* deserialization failed and nothing had been handed to the uninitialised case (load_full)
DeserFailNoRegion ==
  /\ pcl = "deser" /\ ~caseB /\ Deser /\ result' # "pending"
TSilent == (DeserOk \/ DeserFailNoRegion \/ Return) /\ UNCHANGED <<l, addr, canary, wrote>>

\* the release of the region: munmap(addr, len) or dealloc(addr, Layout { size, align })
ReleaseEvent ==
  \/ HasEv("unmap") /\ region.kind = "map" /\ Ev.addr = addr /\ Ev.len = region.cap
  \/ HasEv("hfree") /\ region.kind = "heap" /\ Ev.addr = addr /\ Ev.size = region.cap /\ Ev.align = RoundOf("load_mem")
TReleaseLocal ==
  /\ ReleaseEvent /\ pcl = "readfail" /\ Consume /\ Keep /\ DropLocal
\* ... on the error path of the loader (the BackendGuard), before the call returns
TReleaseOnError ==
  /\ ReleaseEvent /\ pcl = "deser" /\ caseB /\ Consume /\ Keep
  /\ Deser /\ result' # "pending" /\ region'.state = "released"
\* ... without a call when the allocator was never asked (zero bytes)
TReleaseOnErrorSilent ==
  /\ pcl = "deser" /\ caseB /\ region.kind = "heap" /\ region.cap = 0 /\ addr = 0
  /\ Deser /\ result' # "pending" /\ region'.state = "released" /\ UNCHANGED <<l, addr, canary, wrote>>
\* The loader returned (or unwound).  The model's loader must be able to have returned here: on the error path
\* that includes the release of whatever it had created (what the pinned tree did not do).
TReturned ==
  /\ HasEv("returned") /\ pcl = "done" /\ Consume /\ Keep
  /\ result # "ok" => region.state # "live"
  /\ UNCHANGED mvars
\* ... and the model's result is the real one
TLoaded ==
  /\ HasEv("loaded") /\ pcl = "done" /\ Consume /\ Keep
  /\ result = Ev.res
  /\ UNCHANGED mvars

(* ---- the owner ---- *)
TOp ==
  /\ HasEv("op") /\ Consume /\ Keep
  /\ \/ Ev.op = "move" /\ Move
     \/ Ev.op = "box" /\ BoxIt
     \/ Ev.op = "unbox" /\ Unbox
     \/ Ev.op = "send" /\ SendTo
     \/ Ev.op = "back" /\ SendBack
     \/ Ev.op = "arc" /\ ShareArc
     \/ Ev.op = "enter" /\ ReaderEnter
     \/ Ev.op = "leave" /\ ReaderLeave
     \/ Ev.op = "unarc" /\ Unshare
\* the structure's own Drop ran (canary types say so)
TSDrop == HasEv("sdrop") /\ canary /\ Consume /\ Keep /\ DropS
\* other structures are dropped without a trace, right before the backend goes
TSDropSilent ==
  /\ ~canary /\ pcl = "done" /\ result = "ok" /\ DropS /\ UNCHANGED <<l, addr, canary, wrote>>
  /\ (ReleaseEvent \/ HasEv("dropped"))
TRelease == ReleaseEvent /\ pcl = "done" /\ result = "ok" /\ Consume /\ Keep /\ DropB /\ region.state = "live"
\* a case without a region (load_full) has nothing to release
TDropBSilent ==
  /\ HasEv("dropped") /\ region.kind = "none" /\ result = "ok" /\ DropB /\ UNCHANGED <<l, addr, canary, wrote>>
\* the marker after the drop: everything the loader created is gone
TDropped ==
  /\ HasEv("dropped") /\ pcl = "done" /\ Consume
  /\ result = "ok" => owner = "dropped"
  /\ region.state # "live"
  /\ pcl' = "idle" /\ Keep
  /\ UNCHANGED <<prior, fileIs, loader, flags, cause, flen, region, advised, caseB, caseS, result, owner, readers, sDropped, order, steps>>

TNext ==
  \/ TCase \/ TCreate \/ TWrite \/ TStored \/ TLoad \/ TLoadDir \/ TReadFail \/ TReleaseLocal \/ TEncase \/ TStat \/ TOpen \/ TMap \/ THeapAlloc \/ TNoMap
  \/ TAdvise \/ TAdviseDone \/ TRead \/ TNoRead \/ TProtect \/ TWrapSilent \/ TClose \/ TSilent
  \/ TNoHeapAlloc \/ TReleaseOnError \/ TReleaseOnErrorSilent \/ TReturned \/ TLoaded \/ TOp \/ TSDrop \/ TSDropSilent \/ TRelease \/ TDropBSilent \/ TDropped

Furthest == TLCSet(42, IF l > TLCGet(42) THEN l ELSE TLCGet(42))
Accepted ==
  LET d == TLCGet(42)
  IN IF d = Len(Rec) + 1 THEN TRUE
     ELSE Print(<<"TRACE-REJECTED at line", d, IF d <= Len(Rec) THEN Rec[d] ELSE "eof">>, FALSE)
=============================================================================
