----------------------------- MODULE Trace_Read -----------------------------
(***************************************************************************)
(* Trace validation of recorded full-copy deserializations (implementation *)
(* -> specification).  The harness runs check_header + _deserialize_full_   *)
(* inner of the real library on a recording ReadWithPos that delegates to   *)
(* the real ReaderWithPos, for random types and values, and logs every      *)
(* read_exact(len) at its stream position and every align::<T>() request    *)
(* with its unit and the positions before / after.  Each event must be the  *)
(* next fetch of the reader machine (EpsRead.tla, mode "full") on the same  *)
(* bytes; the steps that make no call on the backend are taken silently;    *)
(* at the end the machine's value is the value the real call returned and   *)
(* the value that was serialized, and every byte was consumed.              *)
(***************************************************************************)
EXTENDS EpsRead, Json, IOUtils

Rec == ndJsonDeserialize(IOEnv.TRACE)
VARIABLE l, tcase
tvars == <<serVars, readVars, l, tcase>>
Ev == Rec[l]
HasEv(kind) == l <= Len(Rec) /\ Ev.ev = kind

\* (the serializer's variables are declared by the modules this one extends: held idle)
TInit ==
  /\ l = 1 /\ tcase = [t |-> UnitT, v |-> <<>>] /\ TLCSet(42, 1)
  /\ prog = <<>> /\ pc = 1 /\ pos = 0 /\ pos0 = 0 /\ out = <<>> /\ status = "idle" /\ detail = <<>>
  /\ padleft = -1 /\ cur = <<>> /\ inwrite = FALSE /\ rows = <<>> /\ path = <<>> /\ starts = <<>>
  /\ fake = 0 /\ src = "intact" /\ faults = 0 /\ ncalls = 0 /\ fault = <<"none">>
  /\ input = <<>> /\ rpos = 0 /\ base = 0 /\ rstack = <<>> /\ vals = <<>> /\ got = <<>> /\ need = -1 /\ acc = <<>>
  /\ borrows = <<>> /\ allocs = <<>> /\ rstatus = "idle" /\ rdetail = <<>> /\ rfaults = 0

\* the real header words stand where the machine expects its symbols
SymHeader(bs) == [i \in 1..Len(bs) |-> IF i \in 14..21 THEN TH0 + (i - 13) ELSE IF i \in 22..29 THEN AH0 + (i - 21) ELSE bs[i]]

TStart ==
  /\ HasEv("rinit") /\ rstatus \in {"idle", "ok"}
  /\ tcase' = [t |-> Ev.t, v |-> Ev.v]
  /\ input' = SymHeader(Ev.bytes) /\ rpos' = 0 /\ base' = 0 /\ rstack' = FullFrames(Norm(Ev.t)) /\ vals' = <<>>
  /\ got' = <<>> /\ need' = -1 /\ acc' = <<>> /\ borrows' = <<>> /\ allocs' = <<>>
  /\ rstatus' = "run" /\ rdetail' = <<>> /\ rfaults' = 0
  /\ l' = l + 1

\* a read_exact(len) call of the real reader = the machine's next fetch (not part of an alignment)
TRead ==
  /\ HasEv("rd") /\ RRunning /\ got = <<>> /\ Top.f # "align"
  /\ Want(Top)[1] = Ev.len /\ rpos = Ev.pos /\ Ev.ok
  /\ FetchCall /\ l' = l + 1 /\ UNCHANGED tcase
\* an align::<T>() request: unit and positions; the padding bytes are fetched and the frame completed
TAlign ==
  /\ HasEv("ralign") /\ RRunning /\ got = <<>> /\ Top.f = "align"
  /\ Top.n = Ev.unit /\ rpos = Ev.pos /\ Ev.after = Ev.pos + PadTo(Ev.pos, Ev.unit) /\ Ev.ok
  /\ FetchCall /\ l' = l + 1 /\ UNCHANGED tcase
\* steps that make no call on the backend
TSilent ==
  /\ (StepR \/ StepAlign \/ StepBlock \/ StepBuild \/ StepIncl \/ StepHdr \/ RFinish)
  /\ UNCHANGED <<l, tcase>>
\* Calls that transfer nothing may or may not be made by a correct implementation: a read_exact of zero bytes
\* (recorded ones are filtered out of the trace) and an alignment request where no padding is due.  The machine
\* takes them without an event, so that leaving such a call out (or adding one) is never mistaken for a fault.
TZeroFetch ==
  /\ RRunning /\ got = <<>> /\ Top.f # "align" /\ Want(Top)[1] = 0
  /\ FetchCall /\ UNCHANGED <<l, tcase>>
TAlignSilent ==
  /\ RRunning /\ got = <<>> /\ Top.f = "align" /\ Top.n > 0 /\ PadTo(rpos, Top.n) = 0
  /\ FetchCall /\ UNCHANGED <<l, tcase>>
\* ... and a recorded alignment request that skipped nothing is passed over
TAlignNoop ==
  /\ HasEv("ralign") /\ Ev.after = Ev.pos /\ Ev.ok
  /\ l' = l + 1 /\ UNCHANGED <<readVars, tcase>>
\* the call returned
TRet ==
  /\ HasEv("rret") /\ rstatus = "ok"
  /\ Ev.st = "ok" /\ Ev.val = vals /\ vals = <<tcase.v>> /\ Ev.rpos = rpos /\ rpos = Len(input)
  /\ l' = l + 1 /\ UNCHANGED <<readVars, tcase>>

TNext == (TStart \/ TRead \/ TAlign \/ TSilent \/ TZeroFetch \/ TAlignSilent \/ TAlignNoop \/ TRet) /\ UNCHANGED serVars
Furthest == TLCSet(42, IF l > TLCGet(42) THEN l ELSE TLCGet(42))
TInBounds == rpos <= Len(input)

Accepted ==
  LET d == TLCGet(42)
  IN IF d = Len(Rec) + 1 THEN TRUE
     ELSE Print(<<"TRACE-REJECTED at line", d, IF d <= Len(Rec) THEN Rec[d] ELSE "eof">>, FALSE)
====
