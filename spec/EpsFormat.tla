----------------------------- MODULE EpsFormat -----------------------------
(***************************************************************************)
(* The published format 1.1 as a pure function: Header(T, nameLen) and     *)
(* Encode(T, v, pos).  This is the reference encoder of C06; the step      *)
(* machines (EpsSer, EpsRead) are tied to it by invariants.                *)
(*                                                                         *)
(* Abstract values are nested sequences interpreted by the type:           *)
(*   prim            native-endian byte sequence                           *)
(*   unit/phantom/rangefull   <<>>                                         *)
(*   string/boxstr   UTF-8 byte sequence                                   *)
(*   vec/boxslice/slice/seriter/array/tuple   sequence of item values      *)
(*   option <<0>> | <<1,x>>   bound <<0>> | <<1,x>> | <<2,x>>              *)
(*   cflow <<0,b>> (Break) | <<1,c>> (Continue)                            *)
(*   range  <<start,end>> | <<start>> | <<end>>                            *)
(*   struct sequence of field values;  enum <<variant index (0-based)>> \o fields *)
(* Stream bytes are 0..255 or symbolic integers (TLC cannot compare an     *)
(* integer with a string, so symbols are integers outside the byte range): *)
(* 256 = "?" (padding inside a zero-copy value: whatever memory holds),    *)
(* 300+i = i-th byte of the type hash, 310+i = of the align hash,          *)
(* 320 = a byte of the type name.                                          *)
(***************************************************************************)
EXTENDS EpsTypes

Little == TRUE   \* the sandbox is little-endian; big-endian is model-only

RECURSIVE LEn(_, _)
LEn(n, w) == IF w = 0 THEN <<>> ELSE <<n % 256>> \o LEn(n \div 256, w - 1)
Rev(s) == [i \in 1..Len(s) |-> s[Len(s) + 1 - i]]
NE(n, w) == IF Little THEN LEn(n, w) ELSE Rev(LEn(n, w))
Zeros(n) == [i \in 1..n |-> 0]
UNK == 256
HWBYTE == 999
TH0 == 300
AH0 == 310
TN == 320
Unk(n) == [i \in 1..n |-> UNK]

\* little-endian value of a short byte sequence (only used for tags/lengths <= 3 bytes significant)
RECURSIVE LEVal(_)
LEVal(bs) == IF bs = <<>> THEN 0 ELSE bs[1] + 256 * LEVal(Tail(bs))
NEVal(bs) == IF Little THEN LEVal(bs) ELSE LEVal(Rev(bs))
\* does a usize word fit TLC's integers (we only interpret words < 2^24)
SmallWord(bs) == \A i \in 4..Len(bs) : (IF Little THEN bs ELSE Rev(bs))[i] = 0

MagicBytes == <<101, 112, 115, 101, 114, 100, 101, 32>>   \* b"epserde " (ne bytes of the u64)
VersionMajor == 1
VersionMinor == 1
FixedHeaderLen == 8 + 2 + 2 + 1 + 8 + 8                     \* 29


Header(nameLen) ==
  MagicBytes \o NE(VersionMajor, 2) \o NE(VersionMinor, 2) \o <<UsizeBytes>>
  \o [i \in 1..8 |-> TH0 + i] \o [i \in 1..8 |-> AH0 + i]
  \o NE(nameLen, UsizeBytes) \o [i \in 1..nameLen |-> TN]
HeaderLen(nameLen) == FixedHeaderLen + UsizeBytes + nameLen

---------------------------------------------------------------------------
(* In-memory representation of a zero-copy value (what write_bytes gets).  *)
RECURSIVE MemRepr(_, _), MemFields(_, _, _, _)

\* fields i.. of a struct-like list laid out from offset off; returns bytes up to the last field's end
MemFields(fields, vals, i, off) ==
  IF i > Len(fields) THEN <<>>
  ELSE LET t == fields[i].ty
           start == RoundUp(off, AlignOf(t))
       IN Unk(start - off) \o MemRepr(t, vals[i]) \o MemFields(fields, vals, i + 1, start + SizeOf(t))

MemRepr(T, v) ==
  CASE T.k = "prim" -> v
    [] T.k = "hw" -> [i \in 1..SizeOf(T) |-> HWBYTE]   \* a pointer and a length: must never reach a stream
    [] T.k \in {"unit", "rangefull", "phantom"} -> <<>>
    [] T.k \in {"array", "tuple"} -> Cat([i \in 1..T.n |-> MemRepr(T.elem, v[i])])
    [] T.k = "range" -> Cat([i \in 1..Len(v) |-> MemRepr(T.elem, v[i])])   \* only Copy ranges reach here
    [] T.k = "struct" ->
         LET body == MemFields(T.fields, v, 1, 0)
         IN body \o Unk(SizeOf(T) - Len(body))
    [] T.k = "enum" ->
         LET var == T.variants[v[1] + 1]
             body == IF EnumHasPayload(T)
                     THEN NE(v[1], 4) \o Unk(EnumPayloadOff(T) - 4)
                          \o MemFields(var.fields, Tail(v), 1, 0)
                     ELSE NE(v[1], 4)
         IN body \o Unk(SizeOf(T) - Len(body))

---------------------------------------------------------------------------
(* Encode(T, v, pos): the bytes written for value v of type T when the     *)
(* stream position before it is pos.                                       *)
RECURSIVE Encode(_, _, _), EncodeSeq(_, _, _, _), EncodeFields(_, _, _, _)

\* items i.. of a homogeneous sequence, one after the other
EncodeSeq(T, vs, i, pos) ==
  IF i > Len(vs) THEN <<>>
  ELSE LET b == Encode(T, vs[i], pos)
       IN b \o EncodeSeq(T, vs, i + 1, pos + Len(b))

EncodeFields(fields, vs, i, pos) ==
  IF i > Len(fields) THEN <<>>
  ELSE LET b == Encode(fields[i].ty, vs[i], pos)
       IN b \o EncodeFields(fields, vs, i + 1, pos + Len(b))

ZeroBlock(T, v, pos) == Zeros(PadTo(pos, Unit(T))) \o MemRepr(T, v)

Encode(T, v, pos) ==
  CASE T.k = "prim" -> v
    [] T.k = "hw" -> ZeroBlock(T, v, pos)
    [] T.k \in {"unit", "rangefull", "phantom"} -> <<>>
    [] T.k \in {"string", "boxstr"} -> NE(Len(v), UsizeBytes) \o v
    [] T.k \in SeqKinds ->
         IF IsZC(T.elem)
         THEN NE(Len(v), UsizeBytes)
              \o Zeros(PadTo(pos + UsizeBytes, Unit(T.elem)))
              \o Cat([i \in 1..Len(v) |-> MemRepr(T.elem, v[i])])
         ELSE NE(Len(v), UsizeBytes) \o EncodeSeq(T.elem, v, 1, pos + UsizeBytes)
    [] T.k = "array" ->
         IF IsZC(T.elem) THEN ZeroBlock(T, v, pos)
         ELSE EncodeSeq(T.elem, v, 1, pos)
    [] T.k = "tuple" -> ZeroBlock(T, v, pos)
    [] T.k \in {"option", "bound", "cflow"} ->
         IF Len(v) = 1 THEN <<v[1]>>
         ELSE <<v[1]>> \o Encode(IF T.k = "cflow" THEN (IF v[1] = 0 THEN T.b ELSE T.c) ELSE T.elem,
                                 v[2], pos + 1)
    [] T.k = "range" ->
         EncodeSeq(T.elem, v, 1, pos)
         \o (IF T.rk = "RangeInclusive" THEN <<0>> ELSE <<>>)   \* exhausted = false
    [] T.k = "struct" ->
         IF T.zc THEN ZeroBlock(T, v, pos) ELSE EncodeFields(T.fields, v, 1, pos)
    [] T.k = "enum" ->
         IF T.zc THEN ZeroBlock(T, v, pos)
         ELSE NE(v[1], UsizeBytes)
              \o EncodeFields(T.variants[v[1] + 1].fields, Tail(v), 1, pos + UsizeBytes)

Stream(T, v, nameLen) == Header(nameLen) \o Encode(T, v, HeaderLen(nameLen))

\* equality of byte sequences up to "?" (don't-care) bytes
ByteEq(a, b) == Len(a) = Len(b) /\ \A i \in 1..Len(a) : a[i] = UNK \/ b[i] = UNK \/ a[i] = b[i]

=============================================================================
