--------------------------- MODULE MC_WrongZero ---------------------------
(***************************************************************************)
(* C17.  (a) Every wrongly declared zero-copy definition (Derive.tla        *)
(* WrongZero) with the layer that must reject it, printed for the probe     *)
(* generator.  (b) The serializer machine on every context holding a        *)
(* hand-written "zero-copy" type with a pointer inside: the run must end    *)
(* in the check_zero_copy panic before any byte of the value is accepted.   *)
(***************************************************************************)
EXTENDS EpsSystem, Derive

ASSUME \A m \in AllWrongZero : PrintT(ToJson([rec |-> "mutant", def |-> m.def, tag |-> m.tag, defence |-> m.defence]))

ChooseCase == \E t \in HwContexts : \E i \in 1..Len(Values(t)) : case = Case(t, Values(t)[i], "pub", 20, 0, -1, 0)
Init == ChooseCase /\ SysInitRest
Next ==
  \/ Load
  \/ /\ phase = "ser" /\ ~SerDone /\ SerNext /\ UNCHANGED <<readVars, sysVars>>
  \/ /\ phase = "ser" /\ SerDone /\ phase' = "done" /\ UNCHANGED <<serVars, readVars, case, exp, fullRes>>

\* no pointer byte is ever handed to the sink
NoRawHandle == \A i \in 1..Len(out) : out[i] # HWBYTE
RECURSIVE HasHwType(_), ContainsHw(_, _)
HasHwType(T) ==
  CASE T.k = "hw" -> TRUE
    [] T.k \in {"vec", "boxslice", "slice", "seriter", "array", "tuple", "option", "range"} -> HasHwType(T.elem)
    [] T.k = "struct" -> \E i \in 1..Len(T.fields) : HasHwType(T.fields[i].ty)
    [] OTHER -> FALSE
\* does serializing v reach a zero-copy check of the wrongly declared type?  (an empty *deep* container does not)
ContainsHw(T, v) ==
  CASE T.k = "hw" -> TRUE
    [] T.k \in {"vec", "boxslice", "slice", "seriter", "array"} ->
         IF IsZC(T.elem) THEN HasHwType(T.elem) ELSE \E i \in 1..Len(v) : ContainsHw(T.elem, v[i])
    [] T.k = "tuple" -> HasHwType(T.elem)
    [] T.k = "option" -> v[1] = 1 /\ ContainsHw(T.elem, v[2])
    [] T.k = "range" -> \E i \in 1..Len(v) : ContainsHw(T.elem, v[i])
    [] T.k = "struct" -> \E i \in 1..Len(T.fields) : ContainsHw(T.fields[i].ty, v[i])
    [] OTHER -> FALSE
\* whenever the value holds the wrongly declared type the run ends in the check_zero_copy panic; when that type
\* is the root (or a zero-copy block at the root) the sink holds header bytes only; inside a deep container the
\* container's own length / tag bytes may precede the panic, but never a byte of the type's memory (NoRawHandle)
PanicsBeforeValue ==
  (phase = "done" /\ ContainsHw(case.t, case.v)) =>
     /\ status = "panic"
     /\ (case.t.k \in {"hw", "tuple", "array", "range"} => Len(out) <= HeaderLen(case.nameLen))
EmitW == phase = "done" => PrintT(ToJson([rec |-> "hw", key |-> Key(case.t), st |-> status, outlen |-> Len(out),
                                          headerlen |-> HeaderLen(case.nameLen)]))
====
