------------------------------ MODULE Trace_Ser ------------------------------
(***************************************************************************)
(* Trace validation of recorded serializations (implementation ->          *)
(* specification).  The harness records, for random types and values far   *)
(* outside TLC's enumeration bounds, every call the real serializer makes   *)
(* on its backend: enter / exit of a named field, align (unit = the real    *)
(* max_size_of), block (write_bytes), every write_all of the sink with its  *)
(* bytes, flush, the returned count, then the rows recorded by              *)
(* serialize_with_schema and the values both deserializers return.          *)
(* Each event must be the next step of the serializer machine (EpsSer.tla)  *)
(* on the program of that (type, value); the invariants of EpsSystem.tla    *)
(* that speak about the serializer are evaluated in every state.            *)
(***************************************************************************)
EXTENDS EpsSer, Json, IOUtils

Rec == ndJsonDeserialize(IOEnv.TRACE)
VARIABLE l, tcase, silentOk, woff, keep
tvars == <<serVars, l, tcase, silentOk, woff, keep>>

(* The trace of a run may be *filtered* (its `init` event lists the kinds of events that were kept):    *)
(* the machine takes the steps whose events were filtered out silently.  Consecutive write_all calls    *)
(* are merged by the recorder's post-processing into one `w` event, consumed piecewise by the machine's  *)
(* raw / pad / block writes: the validation is about the bytes and the structure, not about how many     *)
(* write_all calls carried them.                                                                          *)
Ev == Rec[l]
Kept(kind) == kind \in keep
\* ops that make no call on the backend: always silent
Silent(o) == o.op \in {"zccheck", "fake", "forget", "itercheck"}
Visible(p) == SelectSeq(p, LAMBDA o : ~Silent(o))
WildEq(a, b) == Len(a) = Len(b) /\ \A i \in 1..Len(a) : a[i] > 255 \/ a[i] = b[i]

IdleSer ==
  /\ prog = <<>> /\ pc = 1 /\ pos = 0 /\ pos0 = 0 /\ out = <<>> /\ status = "idle" /\ detail = <<>>
  /\ padleft = -1 /\ cur = <<>> /\ inwrite = FALSE /\ rows = <<>> /\ path = <<>> /\ starts = <<>>
  /\ fake = 0 /\ src = "intact" /\ faults = 0 /\ ncalls = 0 /\ fault = <<"none">>

TInit == /\ l = 1 /\ IdleSer /\ tcase = [t |-> UnitT, v |-> <<>>, nameLen |-> 0] /\ silentOk = TRUE
         /\ woff = 0 /\ keep = {} /\ TLCSet(42, 1)

\* a new recorded run: load the program of its (type, value)
TStart ==
  /\ l <= Len(Rec) /\ Ev.ev = "init" /\ woff = 0
  /\ (status \in {"idle", "ok"} \/ ~Kept("ret"))
  /\ tcase' = [t |-> Ev.t, v |-> Ev.v, nameLen |-> Ev.nameLen]
  /\ keep' = {Ev.keep[i] : i \in 1..Len(Ev.keep)}
  /\ LET kk == {Ev.keep[i] : i \in 1..Len(Ev.keep)}
         \* the machine is needed only if some serializer event was kept
         p == IF kk \cap {"enter", "exit", "align", "block", "w", "flush", "ret", "rows"} = {} THEN <<>>
              ELSE SerProgram(Ev.t, Ev.v, Ev.nameLen, -1)
     IN /\ prog' = Visible(p)
        \* (one pass over p: TLC re-evaluates a LET definition at every reference inside a quantifier)
        /\ silentOk' = (SelectSeq(p, LAMBDA o : (o.op = "zccheck" /\ o.a # 1) \/ (o.op = "itercheck" /\ o.a # o.b)) = <<>>)
  /\ pc' = 1 /\ pos' = 0 /\ pos0' = 0 /\ out' = <<>> /\ status' = "run" /\ detail' = <<>>
  /\ padleft' = -1 /\ cur' = <<>> /\ inwrite' = FALSE /\ rows' = <<>> /\ path' = <<>> /\ starts' = <<>>
  /\ fake' = 0 /\ src' = "intact" /\ faults' = 0 /\ ncalls' = 0 /\ fault' = <<"none">>
  /\ l' = l + 1 /\ woff' = 0

Step(a) == a /\ l' = l + 1 /\ UNCHANGED <<tcase, silentOk, woff, keep>>
Quiet(a) == a /\ UNCHANGED <<l, tcase, silentOk, woff, keep>>
HasEv(kind) == l <= Len(Rec) /\ Ev.ev = kind

TEnter == /\ Running /\ CurOp.op = "enter"
          /\ IF Kept("enter") THEN woff = 0 /\ HasEv("enter") /\ CurOp.name = Ev.name /\ Ev.pos = pos /\ Step(DoEnter)
             ELSE Quiet(DoEnter)
TExit ==  /\ Running /\ CurOp.op = "exit"
          /\ IF Kept("exit") THEN woff = 0 /\ HasEv("exit") /\ Ev.pos = pos /\ Step(DoExit) ELSE Quiet(DoExit)
TAlign == /\ Running /\ CurOp.op = "align" /\ padleft = -1
          /\ IF Kept("align") THEN woff = 0 /\ HasEv("align") /\ CurOp.unit = Ev.unit /\ Ev.pos = pos /\ Step(DoAlignStart)
             ELSE Quiet(DoAlignStart)
\* An alignment request that writes nothing may or may not be made by a correct serializer: the machine's is taken
\* without an event when no padding is due, and a recorded one that moved nothing is passed over.  (Leaving such a
\* call out, or adding one, changes no byte and no position.)
TAlignSilent == /\ Running /\ CurOp.op = "align" /\ padleft = -1 /\ Kept("align") /\ woff = 0
                /\ CurOp.unit > 0 /\ PadTo(pos, CurOp.unit) = 0
                /\ Quiet(DoAlignStart)
TAlignNoop == /\ Kept("align") /\ HasEv("align") /\ woff = 0 /\ Ev.unit > 0 /\ PadTo(Ev.pos, Ev.unit) = 0
              /\ l' = l + 1 /\ UNCHANGED <<serVars, tcase, silentOk, woff, keep>>
\* write_bytes announces the block (row pushed before the write): no machine step yet, the write follows
TBlock == /\ Kept("block") /\ HasEv("block") /\ Running /\ CurOp.op = "block" /\ woff = 0
          /\ CurOp.unit = Ev.unit /\ Ev.pos = pos /\ Ev.len = Len(CurOp.bytes)
          /\ l' = l + 1 /\ UNCHANGED <<serVars, tcase, silentOk, woff, keep>>
\* the bytes of the machine's next write are the next bytes of the (merged) w event
Piece(bs) == woff + Len(bs) <= Len(Ev.bytes) /\ WildEq(bs, SubSeq(Ev.bytes, woff + 1, woff + Len(bs)))
Consume(n, a) ==
  /\ a
  /\ IF woff + n = Len(Ev.bytes) THEN l' = l + 1 /\ woff' = 0 ELSE l' = l /\ woff' = woff + n
  /\ UNCHANGED <<tcase, silentOk, keep>>
TWrite ==
  /\ Running /\ ~(CurOp.op = "block" /\ Kept("block") /\ HasEv("block"))
  /\ \/ /\ CurOp.op \in {"raw", "block"} /\ CurOp.bytes = <<>>      \* an empty write carries no byte: silent
        /\ Quiet(IF CurOp.op = "raw" THEN DoRaw ELSE DoBlock)
     \/ /\ HasEv("w") /\ Ev.pos + woff = pos
        /\ \/ CurOp.op = "raw" /\ CurOp.bytes # <<>> /\ Piece(CurOp.bytes) /\ Consume(Len(CurOp.bytes), DoRaw)
           \/ CurOp.op = "block" /\ CurOp.bytes # <<>> /\ Piece(CurOp.bytes) /\ Consume(Len(CurOp.bytes), DoBlock)
           \/ CurOp.op = "align" /\ padleft > 0 /\ Piece(<<0>>) /\ Consume(1, DoPadByte)
TFlush == /\ Running /\ CurOp.op = "flush"
          /\ IF Kept("flush") THEN woff = 0 /\ HasEv("flush") /\ Step(DoFlush) ELSE Quiet(DoFlush)
\* the call returned: success, the count it reports is the machine's position, every silent check passed
TRet ==
  /\ HasEv("ret") /\ woff = 0
  /\ status = "ok" /\ Ev.st = "ok" /\ Ev.n = pos /\ silentOk
  /\ l' = l + 1 /\ UNCHANGED <<serVars, tcase, silentOk, woff, keep>>
\* the schema of the same value: same bytes as the plain run, rows = the machine's rows
RowEq(r, m) == r.field = m.field /\ r.off = m.off /\ r.size = m.size /\ r.align = m.align
TRows ==
  /\ HasEv("rows") /\ status = "ok" /\ woff = 0
  /\ Ev.same_bytes
  /\ Len(Ev.rows) = Len(rows) /\ \A i \in 1..Len(rows) : RowEq(Ev.rows[i], rows[i])
  /\ l' = l + 1 /\ UNCHANGED <<serVars, tcase, silentOk, woff, keep>>
\* both deserializers return the value that was serialized (C01 / C02 on the recorded run)
TFull ==
  /\ HasEv("full") /\ woff = 0 /\ Ev.st = "ok" /\ Ev.val = <<tcase.v>>
  /\ (status = "ok" => Ev.rpos = Len(out))      \* (the machine has run only if the serializer events are in the trace)
  /\ l' = l + 1 /\ UNCHANGED <<serVars, tcase, silentOk, woff, keep>>
TEps ==
  /\ HasEv("eps") /\ woff = 0 /\ Ev.st = "ok" /\ Ev.val = <<tcase.v>>
  \* every borrowed part is a block the machine wrote: same offset and length, inside the stream
  /\ \A i \in 1..Len(Ev.borrows) :
        LET b == Ev.borrows[i]
        IN (status = "ok" /\ (b.len > 0 \/ b.esz > 0)) =>
             /\ b.inb /\ b.mis = 0
             /\ \E j \in 1..Len(rows) : rows[j].field[Len(rows[j].field)] = "zero" /\ rows[j].off = b.off /\ rows[j].size = b.len
  /\ l' = l + 1 /\ UNCHANGED <<serVars, tcase, silentOk, woff, keep>>

TNext == TStart \/ TEnter \/ TExit \/ TAlign \/ TAlignSilent \/ TAlignNoop \/ TBlock \/ TWrite \/ TFlush \/ TRet \/ TRows \/ TFull \/ TEps

\* remember the furthest line reached (silent steps make the diameter useless for acceptance)
Furthest == TLCSet(42, IF l > TLCGet(42) THEN l ELSE TLCGet(42))

\* invariants evaluated in every state of every recorded execution
TPosCounts == (status \in {"run", "ok"}) => pos = Len(out)
TBlockAligned == (Running /\ CurOp.op = "block" /\ CurOp.unit > 0) => pos % CurOp.unit = 0
TOutPrefix == status \in {"run", "ok"} =>
   LET e == Stream(Norm(tcase.t), tcase.v, tcase.nameLen) IN Len(out) <= Len(e)

Accepted ==
  LET d == TLCGet(42)
  IN IF d = Len(Rec) + 1 THEN TRUE
     ELSE Print(<<"TRACE-REJECTED at line", d, IF d <= Len(Rec) THEN Rec[d] ELSE "eof">>, FALSE)
====
