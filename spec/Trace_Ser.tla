------------------------------ MODULE Trace_Ser ------------------------------
(***************************************************************************)
(* Trace validation of recorded serializations (implementation ->          *)
(* specification).  The harness records, for random types and values far   *)
(* outside TLC's enumeration bounds, every call the real serializer makes   *)
(* on its backend: enter / exit of a named field, align (unit = the real    *)
(* max_size_of), block (write_bytes), every write_all of the sink with its  *)
(* bytes, flush, the returned count, then the rows recorded by              *)
(* serialize_with_schema and the values both deserializers return.          *)
(* Each event must be the next step of the serializer machine (EpsSer.tla)  *)
(* on the program of that (type, value); the invariants of EpsSystem.tla    *)
(* that speak about the serializer are evaluated in every state.            *)
(***************************************************************************)
EXTENDS EpsSer, Json, IOUtils

Rec == ndJsonDeserialize(IOEnv.TRACE)
VARIABLE l, tcase, silentOk
tvars == <<serVars, l, tcase, silentOk>>

Ev == Rec[l]
\* ops that make no call on the backend: taken silently
Silent(o) == o.op \in {"zccheck", "fake", "forget", "itercheck"}
\* the machine's program with the silent ops taken out (a failing check would surface as a `ret` event)
Visible(p) == SelectSeq(p, LAMBDA o : ~Silent(o))
WildEq(a, b) == Len(a) = Len(b) /\ \A i \in 1..Len(a) : a[i] > 255 \/ a[i] = b[i]

IdleSer ==
  /\ prog = <<>> /\ pc = 1 /\ pos = 0 /\ pos0 = 0 /\ out = <<>> /\ status = "idle" /\ detail = <<>>
  /\ padleft = -1 /\ cur = <<>> /\ inwrite = FALSE /\ rows = <<>> /\ path = <<>> /\ starts = <<>>
  /\ fake = 0 /\ src = "intact" /\ faults = 0 /\ ncalls = 0 /\ fault = <<"none">>

TInit == l = 1 /\ IdleSer /\ tcase = [t |-> UnitT, v |-> <<>>, nameLen |-> 0] /\ silentOk = TRUE

\* a new recorded run: load the program of its (type, value)
TStart ==
  /\ l <= Len(Rec) /\ Ev.ev = "init"
  /\ tcase' = [t |-> Ev.t, v |-> Ev.v, nameLen |-> Ev.nameLen]
  /\ prog' = Visible(SerProgram(Ev.t, Ev.v, Ev.nameLen, -1))
  /\ pc' = 1 /\ pos' = 0 /\ pos0' = 0 /\ out' = <<>> /\ status' = "run" /\ detail' = <<>>
  /\ padleft' = -1 /\ cur' = <<>> /\ inwrite' = FALSE /\ rows' = <<>> /\ path' = <<>> /\ starts' = <<>>
  /\ fake' = 0 /\ src' = "intact" /\ faults' = 0 /\ ncalls' = 0 /\ fault' = <<"none">>
  /\ silentOk' = \A i \in 1..Len(SerProgram(Ev.t, Ev.v, Ev.nameLen, -1)) :
                    LET o == SerProgram(Ev.t, Ev.v, Ev.nameLen, -1)[i]
                    IN (o.op = "zccheck" => o.a = 1) /\ (o.op = "itercheck" => o.a = o.b)
  /\ l' = l + 1

Step(a) == a /\ l' = l + 1 /\ UNCHANGED <<tcase, silentOk>>

TEnter == /\ l <= Len(Rec) /\ Ev.ev = "enter" /\ Running /\ CurOp.op = "enter"
          /\ CurOp.name = Ev.name /\ Ev.pos = pos /\ Step(DoEnter)
TExit ==  /\ l <= Len(Rec) /\ Ev.ev = "exit" /\ Running /\ CurOp.op = "exit" /\ Ev.pos = pos /\ Step(DoExit)
TAlign == /\ l <= Len(Rec) /\ Ev.ev = "align" /\ Running /\ CurOp.op = "align" /\ padleft = -1
          /\ CurOp.unit = Ev.unit /\ Ev.pos = pos /\ Step(DoAlignStart)
\* write_bytes announces the block (row pushed before the write): no machine step yet, the write follows
TBlock == /\ l <= Len(Rec) /\ Ev.ev = "block" /\ Running /\ CurOp.op = "block"
          /\ CurOp.unit = Ev.unit /\ Ev.pos = pos /\ Ev.len = Len(CurOp.bytes)
          /\ l' = l + 1 /\ UNCHANGED <<serVars, tcase, silentOk>>
TWrite ==
  /\ l <= Len(Rec) /\ Ev.ev = "w" /\ Running /\ Ev.pos = pos
  /\ \/ CurOp.op = "raw" /\ WildEq(CurOp.bytes, Ev.bytes) /\ Step(DoRaw)
     \/ CurOp.op = "block" /\ WildEq(CurOp.bytes, Ev.bytes) /\ Step(DoBlock)
     \/ CurOp.op = "align" /\ padleft > 0 /\ Ev.bytes = <<0>> /\ Step(DoPadByte)
TFlush == /\ l <= Len(Rec) /\ Ev.ev = "flush" /\ Running /\ CurOp.op = "flush" /\ Step(DoFlush)
\* the call returned: success, the count it reports is the machine's position, every silent check passed
TRet ==
  /\ l <= Len(Rec) /\ Ev.ev = "ret"
  /\ status = "ok" /\ Ev.st = "ok" /\ Ev.n = pos /\ silentOk
  /\ l' = l + 1 /\ UNCHANGED <<serVars, tcase, silentOk>>
\* the schema of the same value: same bytes as the plain run, rows = the machine's rows
RowEq(r, m) == r.field = m.field /\ r.off = m.off /\ r.size = m.size /\ r.align = m.align
TRows ==
  /\ l <= Len(Rec) /\ Ev.ev = "rows" /\ status = "ok"
  /\ Ev.same_bytes
  /\ Len(Ev.rows) = Len(rows) /\ \A i \in 1..Len(rows) : RowEq(Ev.rows[i], rows[i])
  /\ l' = l + 1 /\ UNCHANGED <<serVars, tcase, silentOk>>
\* both deserializers return the value that was serialized (C01 / C02 on the recorded run)
TFull ==
  /\ l <= Len(Rec) /\ Ev.ev = "full" /\ Ev.st = "ok" /\ Ev.val = <<tcase.v>>
  /\ (status = "ok" => Ev.rpos = Len(out))      \* (the machine has run only if the serializer events are in the trace)
  /\ l' = l + 1 /\ UNCHANGED <<serVars, tcase, silentOk>>
TEps ==
  /\ l <= Len(Rec) /\ Ev.ev = "eps" /\ Ev.st = "ok" /\ Ev.val = <<tcase.v>>
  \* every borrowed part is a block the machine wrote: same offset and length, inside the stream
  /\ \A i \in 1..Len(Ev.borrows) :
        LET b == Ev.borrows[i]
        IN (status = "ok" /\ (b.len > 0 \/ b.esz > 0)) =>
             /\ b.inb /\ b.mis = 0
             /\ \E j \in 1..Len(rows) : rows[j].field[Len(rows[j].field)] = "zero" /\ rows[j].off = b.off /\ rows[j].size = b.len
  /\ l' = l + 1 /\ UNCHANGED <<serVars, tcase, silentOk>>

TNext == TStart \/ TEnter \/ TExit \/ TAlign \/ TBlock \/ TWrite \/ TFlush \/ TRet \/ TRows \/ TFull \/ TEps

\* invariants evaluated in every state of every recorded execution
TPosCounts == (status \in {"run", "ok"}) => pos = Len(out)
TBlockAligned == (Running /\ CurOp.op = "block" /\ CurOp.unit > 0) => pos % CurOp.unit = 0
TOutPrefix == status \in {"run", "ok"} =>
   LET e == Stream(Norm(tcase.t), tcase.v, tcase.nameLen) IN Len(out) <= Len(e)

Accepted ==
  LET d == TLCGet("stats").diameter
  IN IF d - 1 = Len(Rec) THEN TRUE
     ELSE Print(<<"TRACE-REJECTED at line", d, IF d <= Len(Rec) THEN Rec[d] ELSE "eof">>, FALSE)
====
