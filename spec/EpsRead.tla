------------------------------ MODULE EpsRead ------------------------------
(***************************************************************************)
(* The two deserializers as one stack machine with three modes:            *)
(*   "full"  _deserialize_full_inner on a ReaderWithPos (any ReadNoStd)    *)
(*   "eps"   _deserialize_eps_inner  on a SliceWithPos                     *)
(*   "fs"    _deserialize_full_inner on a SliceWithPos (header check in    *)
(*           ε-copy mode; fields of a derived deep type whose type is not  *)
(*           a type parameter; tags and lengths everywhere)                *)
(* One frame step per call the code makes on its backend; every            *)
(* read_exact / slicing is its own step so that a short input or a reader  *)
(* fault can hit each of them.  Transcribes deser/helpers.rs,              *)
(* deser/reader_with_pos.rs, deser/slice_with_pos.rs, deser/mod.rs         *)
(* (check_header), impls/*.rs and the derive macro.                        *)
(***************************************************************************)
EXTENDS EpsSer

CONSTANTS
  BugCFlowTags,  \* TRUE = pinned reader: ControlFlow tags 1/2 (writer emits 0/1)   (defect #1)
  BugOptTag,     \* TRUE = pinned ε-copy Option: InvalidTag(next byte)               (defect #2)
  BugArray0,     \* TRUE = pinned ε-copy zero-sized zero-copy array: index panic     (defect #3)
  BugZstSlice,   \* TRUE = ε-copy slice of zero-sized elements comes back empty      (defect #4b)
  BugZstNoAlign  \* TRUE = ε-copy of a zero-sized zero-copy value does not skip the padding

---------------------------------------------------------------------------
(* Parsing the memory representation of a zero-copy value back (inverse of *)
(* MemRepr, ignoring padding).                                             *)
RECURSIVE MemParse(_, _), ParseFields(_, _, _, _)
ParseFields(fields, bs, i, off) ==
  IF i > Len(fields) THEN <<>>
  ELSE LET t == fields[i].ty
           start == RoundUp(off, AlignOf(t))
       IN <<MemParse(t, SubSeq(bs, start + 1, start + SizeOf(t)))>>
          \o ParseFields(fields, bs, i + 1, start + SizeOf(t))
Chunks(T, bs, n) == [i \in 1..n |-> MemParse(T, SubSeq(bs, (i - 1) * SizeOf(T) + 1, i * SizeOf(T)))]
MemParse(T, bs) ==
  CASE T.k = "prim" -> bs
    [] T.k \in {"unit", "rangefull", "phantom"} -> <<>>
    [] T.k \in {"array", "tuple"} -> Chunks(T.elem, bs, T.n)
    [] T.k = "range" -> Chunks(T.elem, bs, RangeArity(T.rk))
    [] T.k = "struct" -> ParseFields(T.fields, bs, 1, 0)
    [] T.k = "enum" ->
         \* (a damaged tag word can be anything: only small ones are interpreted numerically)
         LET tag == IF bs[3] = 0 /\ bs[4] = 0 THEN NEVal(SubSeq(bs, 1, 2)) ELSE 65536
         IN <<tag>> \o (IF EnumHasPayload(T) /\ tag < Len(T.variants)
                        THEN ParseFields(T.variants[tag + 1].fields,
                                         SubSeq(bs, EnumPayloadOff(T) + 1, Len(bs)), 1, 0)
                        ELSE <<>>)

(* Zero-copy data is handed out (borrowed, or copied into a vector) as typed   *)
(* memory without looking at it.  ValidMem says whether the bytes are a value  *)
(* of the type at all: a bool is 0 or 1, a char a scalar value, a NonZero not  *)
(* zero, an enum tag one of its variants.  If not, the code has produced an    *)
(* invalid value: undefined behaviour (outcome "ub"; beyond the listed         *)
(* properties, which only speak of damaged headers, tags, cuts and placement). *)
IsNonZeroName0(n) == n \in {"NonZeroU8", "NonZeroU16", "NonZeroU32", "NonZeroU64", "NonZeroU128",
   "NonZeroUsize", "NonZeroI8", "NonZeroI16", "NonZeroI32", "NonZeroI64", "NonZeroI128", "NonZeroIsize"}
CharOk0(bs) ==
  LET b == IF Little THEN bs ELSE Rev(bs)
  IN b[4] = 0 /\ b[3] <= 16 /\ ~(b[3] = 0 /\ b[2] >= 216 /\ b[2] <= 223)
Known(bs) == \A i \in 1..Len(bs) : bs[i] <= 255
RECURSIVE ValidMem(_, _), ValidFields(_, _, _, _)
ValidFields(fields, bs, i, off) ==
  IF i > Len(fields) THEN TRUE
  ELSE LET t == fields[i].ty
           start == RoundUp(off, AlignOf(t))
       IN ValidMem(t, SubSeq(bs, start + 1, start + SizeOf(t))) /\ ValidFields(fields, bs, i + 1, start + SizeOf(t))
ValidMem(T, bs) ==
  CASE T.k = "prim" ->
         IF ~Known(bs) THEN TRUE
         ELSE CASE T.name = "bool" -> bs[1] \in {0, 1}
                [] T.name = "char" -> CharOk0(bs)
                [] IsNonZeroName0(T.name) -> \E i \in 1..Len(bs) : bs[i] # 0
                [] OTHER -> TRUE
    [] T.k \in {"array", "tuple"} ->
         \A i \in 1..T.n : ValidMem(T.elem, SubSeq(bs, (i - 1) * SizeOf(T.elem) + 1, i * SizeOf(T.elem)))
    [] T.k = "range" ->
         \A i \in 1..RangeArity(T.rk) : ValidMem(T.elem, SubSeq(bs, (i - 1) * SizeOf(T.elem) + 1, i * SizeOf(T.elem)))
    [] T.k = "struct" -> ValidFields(T.fields, bs, 1, 0)
    [] T.k = "enum" ->
         LET tw == SubSeq(bs, 1, 4)
         IN IF ~Known(tw) THEN TRUE
            ELSE /\ tw[3] = 0 /\ tw[4] = 0 /\ NEVal(SubSeq(tw, 1, 2)) < Len(T.variants)
                 /\ (EnumHasPayload(T) =>
                        ValidFields(T.variants[NEVal(SubSeq(tw, 1, 2)) + 1].fields,
                                    SubSeq(bs, EnumPayloadOff(T) + 1, Len(bs)), 1, 0))
    [] OTHER -> TRUE
\* size_of::<T>() = 0 in Rust (zero-copy types: their size; deep-copy types: arrays of length 0 and structs of such)
RECURSIVE RustZst(_)
RustZst(T) ==
  CASE T.k \in {"unit", "rangefull", "phantom"} -> TRUE
    [] T.k = "array" -> T.n = 0 \/ RustZst(T.elem)
    [] T.k = "tuple" -> RustZst(T.elem)
    [] T.k = "struct" -> \A i \in 1..Len(T.fields) : RustZst(T.fields[i].ty)
    [] OTHER -> FALSE
ValidItems(E, bs, n) == \A i \in 1..n : ValidMem(E, SubSeq(bs, (i - 1) * SizeOf(E) + 1, i * SizeOf(E)))

\* UTF-8 well-formedness (Unicode table 3-7), for the bytes a string is made of
RECURSIVE Utf8Ok(_)
Utf8Ok(bs) ==
  IF bs = <<>> THEN TRUE
  ELSE LET a == bs[1]
           n == Len(bs)
           cont(i) == i <= n /\ bs[i] >= 128 /\ bs[i] <= 191
       IN CASE a <= 127 \/ a > 255 -> Utf8Ok(Tail(bs))     \* (a symbolic byte stands for an ASCII character of a type name)
            [] a >= 194 /\ a <= 223 -> cont(2) /\ Utf8Ok(SubSeq(bs, 3, n))
            [] a >= 224 /\ a <= 239 ->
                 /\ cont(2) /\ cont(3)
                 /\ (a = 224 => bs[2] >= 160) /\ (a = 237 => bs[2] <= 159)
                 /\ Utf8Ok(SubSeq(bs, 4, n))
            [] a >= 240 /\ a <= 244 ->
                 /\ cont(2) /\ cont(3) /\ cont(4)
                 /\ (a = 240 => bs[2] >= 144) /\ (a = 244 => bs[2] <= 143)
                 /\ Utf8Ok(SubSeq(bs, 5, n))
            [] OTHER -> FALSE

---------------------------------------------------------------------------
VARIABLES
  input,     \* the bytes the reader holds (whole buffer / whole stream)
  rpos,      \* bytes consumed = ReaderWithPos.pos / SliceWithPos.pos
  base,      \* address of input[1] modulo 128 (ε-copy only)
  rstack,    \* continuation: sequence of frames, Head is next
  vals,      \* value stack (last = top)
  got,       \* bytes fetched for the top frame: <<>> = nothing fetched, <<bs>> = fetched bs
  need,      \* "std" grain: bytes still to be read by the read_exact in progress (-1 = none)
  acc,       \* "std" grain: bytes read so far by the read_exact in progress
  borrows,   \* ε-copy: [off, len, esz, al] of every borrowed part, in creation order
  allocs,    \* sizes (in elements) of the vectors allocated, in order
  rstatus,   \* "run" | "ok" | error name | "panic"
  rdetail,   \* payload of the error
  rfaults    \* reader nondeterminism spent

readVars == <<input, rpos, base, rstack, vals, got, need, acc, borrows, allocs, rstatus, rdetail, rfaults>>

CONSTANTS
  ReaderGrain,   \* "call": read_exact atomic | "std": std::io::Read::read_exact loop over read()
  ReaderFaulty,  \* the reader may fail / fragment / interrupt (full mode only)
  MaxRFaults

FR(T, m)         == [f |-> "R", ty |-> T, m |-> m, n |-> 0, x |-> 0, s |-> ""]
FAlign(u, m)     == [f |-> "align", ty |-> UnitT, m |-> m, n |-> u, x |-> 0, s |-> ""]
FBlock(E, c, m, shape) == [f |-> "block", ty |-> E, m |-> m, n |-> c, x |-> 0, s |-> shape]
FBuild(kind, n, x)     == [f |-> "build", ty |-> UnitT, m |-> "", n |-> n, x |-> x, s |-> kind]
FIncl(m)         == [f |-> "incl", ty |-> UnitT, m |-> m, n |-> 0, x |-> 0, s |-> ""]
FHdr(step, T, m) == [f |-> "hdr", ty |-> T, m |-> m, n |-> 0, x |-> 0, s |-> step]

ReadInitWith(bytes, startPos, b, frames) ==
  /\ input = bytes /\ rpos = startPos /\ base = b /\ rstack = frames /\ vals = <<>>
  /\ got = <<>> /\ need = -1 /\ acc = <<>> /\ borrows = <<>> /\ allocs = <<>>
  /\ rstatus = "run" /\ rdetail = <<>> /\ rfaults = 0

Avail == Len(input) - rpos
Top == Head(rstack)
RRunning == rstatus = "run" /\ rstack # <<>>

RFail(st, d) == rstatus' = st /\ rdetail' = d

ElemMode(m) == m
\* mode of a field of a derived deep type (derive 295-300, 611-615, 692-696)
FieldMode(m, fld) == IF m = "eps" THEN (IF fld.p > 0 THEN "eps" ELSE "fs") ELSE m

\* validity checks the readers perform on primitives (unwrap / assert)
IsNonZeroName(n) == n \in {"NonZeroU8", "NonZeroU16", "NonZeroU32", "NonZeroU64", "NonZeroU128",
   "NonZeroUsize", "NonZeroI8", "NonZeroI16", "NonZeroI32", "NonZeroI64", "NonZeroI128", "NonZeroIsize"}
CharOk(bs) ==   \* char::from_u32: < 0x110000 and not a surrogate (little-endian bytes)
  LET b == IF Little THEN bs ELSE Rev(bs)
  IN /\ b[4] = 0 /\ b[3] <= 16
     /\ ~(b[3] = 0 /\ b[2] >= 216 /\ b[2] <= 223)
PrimOk(name, bs) ==
  CASE name = "char" -> CharOk(bs)
    [] IsNonZeroName(name) -> \E i \in 1..Len(bs) : bs[i] # 0
    [] OTHER -> TRUE
PrimNorm(name, bs) == IF name = "bool" THEN (IF bs[1] # 0 THEN <<1>> ELSE <<0>>) ELSE bs

---------------------------------------------------------------------------
(* What the top frame asks of the backend first: <<n, how>> with how in    *)
(*  "exact" (read_exact: ReadError if short), "slice" (indexing/skip:       *)
(*  panic if short), or <<-1, "">> if it needs no bytes.                    *)
Want(fr) ==
  CASE fr.f = "R" ->
         LET T == fr.ty
         IN CASE T.k = "prim" -> <<PrimSize(T.name), IF fr.m = "eps" THEN "slice" ELSE "exact">>
              [] T.k \in {"string", "boxstr", "vec", "boxslice"} -> <<UsizeBytes, "exact">>
              [] T.k \in {"option", "bound", "cflow"} -> <<1, "exact">>
              [] T.k = "enum" /\ ~T.zc -> <<UsizeBytes, "exact">>
              [] OTHER -> <<-1, "">>
    [] fr.f = "align" ->
         IF fr.n = 0 THEN <<-1, "">>      \* unit 0: underflow before anything is read
         ELSE <<PadTo(rpos, fr.n), IF fr.m = "full" THEN "exact" ELSE "slice">>
    [] fr.f = "block" ->
         <<fr.n * SizeOf(fr.ty), IF fr.m = "eps" THEN "slice" ELSE "exact">>
    [] fr.f = "incl" -> <<1, "exact">>
    [] fr.f = "hdr" ->
         CASE fr.s = "magic" -> <<8, "exact">>
           [] fr.s \in {"major", "minor"} -> <<2, "exact">>
           [] fr.s = "usize" -> <<1, "exact">>
           [] fr.s \in {"th", "ah"} -> <<8, "exact">>
           [] OTHER -> <<-1, "">>
    [] OTHER -> <<-1, "">>

(* ---- fetching bytes ---- *)
\* atomic grain
FetchCall ==
  /\ RRunning /\ got = <<>> /\ need = -1 /\ Want(Top)[1] >= 0
  /\ LET n == Want(Top)[1]
         how == Want(Top)[2]
     IN IF n <= Avail
        THEN \/ /\ got' = <<SubSeq(input, rpos + 1, rpos + n)>>
                /\ rpos' = rpos + n
                /\ UNCHANGED <<rstatus, rdetail, rfaults>>
             \/ \* a faulty reader fails this read_exact (full mode only)
                /\ ReaderFaulty /\ Top.m = "full" /\ how = "exact" /\ n > 0
                /\ RFail("ReadError", <<>>) /\ UNCHANGED <<got, rpos, rfaults>>
        ELSE /\ IF how = "exact" THEN RFail("ReadError", <<>>) ELSE RFail("panic", <<"bounds">>)
             /\ UNCHANGED <<got, rpos, rfaults>>
  /\ UNCHANGED <<input, base, rstack, vals, need, acc, borrows, allocs>>

(* std::io::Read::read_exact: while !buf.is_empty() { match read(buf) { Ok(0) => UnexpectedEof,
   Ok(n) => buf = &mut buf[n..], Err(Interrupted) => {}, Err(e) => return Err(e) } } *)
StdStart ==
  /\ RRunning /\ got = <<>> /\ need = -1 /\ Want(Top)[1] >= 0
  /\ LET n == Want(Top)[1]
         how == Want(Top)[2]
     IN IF how = "exact" /\ Top.m = "full"
        THEN IF n = 0 THEN got' = << <<>> >> /\ UNCHANGED <<need, acc, rpos, rstatus, rdetail>>
             ELSE need' = n /\ acc' = <<>> /\ UNCHANGED <<got, rpos, rstatus, rdetail>>
        ELSE \* slice-backed reads are not fragmented
             IF n <= Avail
             THEN /\ got' = <<SubSeq(input, rpos + 1, rpos + n)>> /\ rpos' = rpos + n
                  /\ UNCHANGED <<need, acc, rstatus, rdetail>>
             ELSE /\ IF how = "exact" THEN RFail("ReadError", <<>>) ELSE RFail("panic", <<"bounds">>)
                  /\ UNCHANGED <<got, rpos, need, acc>>
  /\ UNCHANGED <<input, base, rstack, vals, borrows, allocs, rfaults>>
StdRead(k) ==   \* read() returned Ok(k)
  /\ RRunning /\ need > 0 /\ k \in 1..Min(need, Avail)
  /\ (k < Min(need, Avail) => (ReaderFaulty /\ rfaults < MaxRFaults))
  /\ rfaults' = IF k < Min(need, Avail) THEN rfaults + 1 ELSE rfaults
  /\ rpos' = rpos + k
  /\ IF k = need
     THEN got' = <<acc \o SubSeq(input, rpos + 1, rpos + k)>> /\ need' = -1 /\ acc' = <<>>
     ELSE acc' = acc \o SubSeq(input, rpos + 1, rpos + k) /\ need' = need - k /\ UNCHANGED got
  /\ UNCHANGED <<input, base, rstack, vals, borrows, allocs, rstatus, rdetail>>
StdEof ==       \* read() returned Ok(0) because the source is exhausted
  /\ RRunning /\ need > 0 /\ Avail = 0
  /\ RFail("ReadError", <<>>)
  /\ UNCHANGED <<input, rpos, base, rstack, vals, got, need, acc, borrows, allocs, rfaults>>
StdRIntr ==     \* read() returned Err(Interrupted): retried
  /\ RRunning /\ need > 0 /\ ReaderFaulty /\ rfaults < MaxRFaults
  /\ rfaults' = rfaults + 1
  /\ UNCHANGED <<input, rpos, base, rstack, vals, got, need, acc, borrows, allocs, rstatus, rdetail>>
StdRErr ==      \* read() returned another error
  /\ RRunning /\ need > 0 /\ ReaderFaulty
  /\ RFail("ReadError", <<>>)
  /\ UNCHANGED <<input, rpos, base, rstack, vals, got, need, acc, borrows, allocs, rfaults>>

Fetch ==
  IF ReaderGrain = "call" THEN FetchCall
  ELSE \/ StdStart \/ (\E k \in 1..Max(1, Min(need, Avail)) : StdRead(k)) \/ StdEof \/ StdRIntr \/ StdRErr

---------------------------------------------------------------------------
(* ---- processing the top frame once its bytes are there ---- *)
Ready == RRunning /\ need = -1 /\ (Want(Top)[1] < 0 \/ got # <<>>)
Bytes == got[1]
Rest == Tail(rstack)
PushVal(v) == vals' = Append(vals, v)
Cont(frames) == rstack' = frames \o Rest

\* frames reading the fields of a derived deep type, then building it
FieldFrames(fields, m) == [i \in 1..Len(fields) |-> FR(fields[i].ty, FieldMode(m, fields[i]))]

\* how a length / tag word is interpreted (only small words are interpreted numerically)
WordVal(bs) == NEVal(SubSeq(IF Little THEN bs ELSE Rev(bs), 1, 3))

StepR ==
  /\ Ready /\ Top.f = "R"
  /\ LET T == Top.ty
         m == Top.m
     IN CASE T.k = "prim" ->
               IF PrimOk(T.name, Bytes)
               THEN PushVal(PrimNorm(T.name, Bytes)) /\ Cont(<<>>) /\ UNCHANGED <<rstatus, rdetail, allocs>>
               ELSE RFail("panic", <<"unwrap">>) /\ UNCHANGED <<vals, rstack, allocs>>
          [] T.k \in {"unit", "rangefull", "phantom"} ->
               PushVal(<<>>) /\ Cont(<<>>) /\ UNCHANGED <<rstatus, rdetail, allocs>>
          [] T.k \in {"string", "boxstr"} ->
               \* deserialize_full_vec_zero::<u8> / deserialize_eps_slice_zero::<u8>
               IF ~SmallWord(Bytes) THEN RFail("panic", <<"capacity">>) /\ UNCHANGED <<vals, rstack, allocs>>
               ELSE /\ Cont(<<FAlign(1, m), FBlock(U8, WordVal(Bytes), m, "str")>>)
                    /\ UNCHANGED <<vals, rstatus, rdetail, allocs>>
          [] T.k \in {"vec", "boxslice"} ->
               \* a damaged length word of 2^24 and more.  Items with a size: Vec::with_capacity panics / fails to allocate
               \* before anything is checked.  Zero-sized zero-copy items: the "vector" of that many items is returned.
               \* Zero-sized deep-copy items (they take no byte of the stream either): the item loop never ends.
               IF ~SmallWord(Bytes)
               THEN (IF RustZst(T.elem)
                     THEN (IF IsZC(T.elem) THEN RFail("ok-huge", <<"zero-sized items">>)
                           ELSE RFail("hang", <<"item loop over items that take no byte">>))
                     ELSE RFail("panic", <<"capacity">>))
                    /\ UNCHANGED <<vals, rstack, allocs>>
               ELSE LET len == WordVal(Bytes)
                    IN IF IsZC(T.elem)
                       THEN /\ Cont(<<FAlign(Unit(T.elem), m), FBlock(T.elem, len, m, "seq")>>)
                            /\ UNCHANGED <<vals, rstatus, rdetail, allocs>>
                       ELSE \* Vec::with_capacity(len), then one item after the other
                            /\ allocs' = Append(allocs, len)
                            /\ Cont([i \in 1..len |-> FR(T.elem, ElemMode(m))] \o <<FBuild("seq", len, 0)>>)
                            /\ UNCHANGED <<vals, rstatus, rdetail>>
          [] T.k = "array" ->
               IF IsZC(T.elem)
               THEN \* align::<T>() (the element's unit), then the whole array
                    Cont(<<FAlign(Unit(T.elem), m), FBlock(T, 1, m, "arr")>>)
                    /\ UNCHANGED <<vals, rstatus, rdetail, allocs>>
               ELSE Cont([i \in 1..T.n |-> FR(T.elem, ElemMode(m))] \o <<FBuild("seq", T.n, 0)>>)
                    /\ UNCHANGED <<vals, rstatus, rdetail, allocs>>
          [] T.k = "tuple" \/ (T.k \in {"struct", "enum"} /\ T.zc) ->
               \* deserialize_full_zero / deserialize_eps_zero: align, then the value (for a zero-sized type the
               \* block is empty, but the padding the serializer wrote is skipped all the same; BugZstNoAlign =
               \* pinned tree: the ε-copy reader returned before aligning)
               IF m = "eps" /\ SizeOf(T) = 0 /\ BugZstNoAlign
               THEN PushVal(MemParse(T, <<>>)) /\ Cont(<<>>) /\ UNCHANGED <<rstatus, rdetail, allocs>>
               ELSE Cont(<<FAlign(Unit(T), m), FBlock(T, 1, m, "one")>>)
                    /\ UNCHANGED <<vals, rstatus, rdetail, allocs>>
          [] T.k = "option" ->
               LET tag == Bytes[1]
               IN CASE tag = 0 -> PushVal(<<0>>) /\ Cont(<<>>) /\ UNCHANGED <<rstatus, rdetail, allocs>>
                    [] tag = 1 -> Cont(<<FR(T.elem, ElemMode(m)), FBuild("tag", 1, 1)>>)
                                  /\ UNCHANGED <<vals, rstatus, rdetail, allocs>>
                    [] OTHER ->
                         /\ IF m = "eps" /\ BugOptTag
                            THEN IF Avail = 0 THEN RFail("panic", <<"bounds">>)
                                 ELSE RFail("InvalidTag", <<input[rpos + 1]>>)
                            ELSE RFail("InvalidTag", <<tag>>)
                         /\ UNCHANGED <<vals, rstack, allocs>>
          [] T.k = "bound" ->
               LET tag == Bytes[1]
               IN CASE tag = 0 -> PushVal(<<0>>) /\ Cont(<<>>) /\ UNCHANGED <<rstatus, rdetail, allocs>>
                    [] tag \in {1, 2} -> Cont(<<FR(T.elem, ElemMode(m)), FBuild("tag", 1, tag)>>)
                                         /\ UNCHANGED <<vals, rstatus, rdetail, allocs>>
                    [] OTHER -> RFail("InvalidTag", <<tag>>) /\ UNCHANGED <<vals, rstack, allocs>>
          [] T.k = "cflow" ->
               LET tag == Bytes[1]
                   brk == IF BugCFlowTags THEN 1 ELSE 0
                   cnt == IF BugCFlowTags THEN 2 ELSE 1
               IN CASE tag = brk -> Cont(<<FR(T.b, ElemMode(m)), FBuild("tag", 1, 0)>>)
                                    /\ UNCHANGED <<vals, rstatus, rdetail, allocs>>
                    [] tag = cnt -> Cont(<<FR(T.c, ElemMode(m)), FBuild("tag", 1, 1)>>)
                                    /\ UNCHANGED <<vals, rstatus, rdetail, allocs>>
                    [] OTHER -> RFail("InvalidTag", <<tag>>) /\ UNCHANGED <<vals, rstack, allocs>>
          [] T.k = "range" ->
               LET k == RangeArity(T.rk)
               IN Cont([i \in 1..k |-> FR(T.elem, ElemMode(m))]
                       \o (IF T.rk = "RangeInclusive" THEN <<FIncl(m)>> ELSE <<>>)
                       \o <<FBuild("seq", k, 0)>>)
                  /\ UNCHANGED <<vals, rstatus, rdetail, allocs>>
          [] T.k = "struct" /\ ~T.zc ->   \* deep
               Cont(FieldFrames(T.fields, m) \o <<FBuild("seq", Len(T.fields), 0)>>)
               /\ UNCHANGED <<vals, rstatus, rdetail, allocs>>
          [] T.k = "enum" /\ ~T.zc ->     \* deep: usize tag, match, InvalidTag(tag) fallback
               IF SmallWord(Bytes) /\ WordVal(Bytes) < Len(T.variants)
               THEN LET tag == WordVal(Bytes)
                        fs == T.variants[tag + 1].fields
                    IN Cont(FieldFrames(fs, m) \o <<FBuild("enumv", Len(fs), tag)>>)
                       /\ UNCHANGED <<vals, rstatus, rdetail, allocs>>
               ELSE RFail("InvalidTag", Bytes) /\ UNCHANGED <<vals, rstack, allocs>>
  /\ got' = <<>>
  /\ UNCHANGED <<input, rpos, base, need, acc, borrows, rfaults>>

\* ReaderWithPos::align (skip, no check) / SliceWithPos::align (skip, then check the address)
StepAlign ==
  /\ Ready /\ Top.f = "align"
  /\ IF Top.n = 0
     THEN RFail("panic", <<"pad_align_to: align_to - 1 underflows">>) /\ UNCHANGED rstack
     ELSE IF Top.m # "full" /\ (base + rpos) % Top.n # 0
          THEN RFail("AlignmentError", <<>>) /\ UNCHANGED rstack
          ELSE Cont(<<>>) /\ UNCHANGED <<rstatus, rdetail>>
  /\ got' = <<>>
  /\ UNCHANGED <<input, rpos, base, vals, need, acc, borrows, allocs, rfaults>>

\* a block of zero-copy data: copied (full / fs) or borrowed (eps)
StepBlock ==
  /\ Ready /\ Top.f = "block"
  /\ LET E == Top.ty
         c == Top.n
         sz == c * SizeOf(E)
         items == Chunks(E, Bytes, c)
         v == CASE Top.s = "str" -> Bytes
                [] Top.s = "seq" -> IF Top.m = "eps" /\ SizeOf(E) = 0 /\ BugZstSlice THEN <<>> ELSE items
                [] OTHER -> items[1]
     IN IF Top.m = "eps" /\ Top.s = "arr" /\ sz = 0 /\ BugArray0
        THEN RFail("panic", <<"index 0 of empty">>) /\ UNCHANGED <<vals, rstack, borrows, allocs>>
        ELSE IF Top.s = "str" /\ ~Utf8Ok(Bytes)
        THEN \* String::from_utf8(..).unwrap() panics; the ε-copy reader transmutes the bytes to &str unchecked
             /\ (IF Top.m = "eps" THEN RFail("ub", <<"str">>) ELSE RFail("panic", <<"utf8">>))
             /\ UNCHANGED <<vals, rstack, borrows, allocs>>
        ELSE IF Top.s # "str" /\ ~(IF Top.s = "seq" THEN ValidItems(E, Bytes, c) ELSE ValidMem(E, Bytes))
        THEN RFail("ub", <<"invalid value">>) /\ UNCHANGED <<vals, rstack, borrows, allocs>>
        ELSE /\ PushVal(v) /\ Cont(<<>>)
             /\ IF Top.m = "eps" /\ Top.s \in {"one", "arr"} /\ sz = 0
                THEN UNCHANGED <<borrows, allocs>>   \* a reference to a zero-sized value borrows nothing
                ELSE IF Top.m = "eps"
                THEN /\ borrows' = Append(borrows, [off |-> rpos - sz, len |-> sz, esz |-> SizeOf(E),
                                                     al |-> AlignOf(E)])
                     /\ UNCHANGED allocs
                ELSE /\ allocs' = IF Top.s \in {"seq", "str"} THEN Append(allocs, c) ELSE allocs
                     /\ UNCHANGED borrows
             /\ UNCHANGED <<rstatus, rdetail>>
  /\ got' = <<>>
  /\ UNCHANGED <<input, rpos, base, need, acc, rfaults>>

StepBuild ==
  /\ Ready /\ Top.f = "build"
  /\ LET n == Top.n
         args == SubSeq(vals, Len(vals) - n + 1, Len(vals))
         below == SubSeq(vals, 1, Len(vals) - n)
         v == CASE Top.s = "seq" -> args
                [] Top.s = "tag" -> <<Top.x>> \o args
                [] Top.s = "enumv" -> <<Top.x>> \o args
     IN vals' = Append(below, v)
  /\ Cont(<<>>)
  /\ UNCHANGED <<input, rpos, base, got, need, acc, borrows, allocs, rstatus, rdetail, rfaults>>

\* RangeInclusive: the `exhausted` flag, assert!(!exhausted)
StepIncl ==
  /\ Ready /\ Top.f = "incl"
  /\ IF Bytes[1] # 0 THEN RFail("panic", <<"exhausted">>) /\ UNCHANGED rstack
     ELSE Cont(<<>>) /\ UNCHANGED <<rstatus, rdetail>>
  /\ got' = <<>>
  /\ UNCHANGED <<input, rpos, base, vals, need, acc, borrows, allocs, rfaults>>

(* deser/mod.rs check_header *)
StepHdr ==
  /\ Ready /\ Top.f = "hdr"
  /\ LET s == Top.s
         T == Top.ty
         m == Top.m
         next(step) == Cont(<<FHdr(step, T, m)>>) /\ UNCHANGED <<rstatus, rdetail, vals>>
     IN CASE s = "magic" ->
               IF Bytes = MagicBytes THEN next("major")
               ELSE IF Bytes = Rev(MagicBytes) THEN RFail("EndiannessError", <<>>) /\ UNCHANGED <<rstack, vals>>
               ELSE RFail("MagicCookieError", Bytes) /\ UNCHANGED <<rstack, vals>>
          [] s = "major" ->
               IF NEVal(Bytes) # VersionMajor THEN RFail("MajorVersionMismatch", <<NEVal(Bytes)>>) /\ UNCHANGED <<rstack, vals>>
               ELSE next("minor")
          [] s = "minor" ->
               IF NEVal(Bytes) > VersionMinor THEN RFail("MinorVersionMismatch", <<NEVal(Bytes)>>) /\ UNCHANGED <<rstack, vals>>
               ELSE next("usize")
          [] s = "usize" ->
               IF Bytes[1] # UsizeBytes THEN RFail("UsizeSizeMismatch", <<Bytes[1]>>) /\ UNCHANGED <<rstack, vals>>
               ELSE next("th")
          [] s = "th" -> /\ vals' = Append(vals, Bytes) /\ Cont(<<FHdr("ah", T, m)>>)
                         /\ UNCHANGED <<rstatus, rdetail>>
          [] s = "ah" -> \* then the type name is read as a String (fully), then the hashes are compared
                         /\ vals' = Append(vals, Bytes)
                         /\ Cont(<<FR(StringT, IF m = "full" THEN "full" ELSE "fs"), FHdr("cmp", T, m)>>)
                         /\ UNCHANGED <<rstatus, rdetail>>
          [] s = "cmp" ->
               LET th == vals[Len(vals) - 2]
                   ah == vals[Len(vals) - 1]
               IN IF th # [i \in 1..8 |-> TH0 + i]
                  THEN RFail("WrongTypeHash", th) /\ UNCHANGED <<rstack, vals>>
                  ELSE IF ah # [i \in 1..8 |-> AH0 + i]
                  THEN RFail("WrongAlignHash", ah) /\ UNCHANGED <<rstack, vals>>
                  ELSE \* header accepted: continue with the value itself
                       /\ vals' = SubSeq(vals, 1, Len(vals) - 3)
                       /\ Cont(<<FR(T, m)>>) /\ UNCHANGED <<rstatus, rdetail>>
  /\ got' = <<>>
  /\ UNCHANGED <<input, rpos, base, need, acc, borrows, allocs, rfaults>>

RFinish ==
  /\ rstatus = "run" /\ rstack = <<>>
  /\ rstatus' = "ok"
  /\ UNCHANGED <<input, rpos, base, rstack, vals, got, need, acc, borrows, allocs, rdetail, rfaults>>

ReadNext ==
  \/ (RRunning /\ got = <<>> /\ Want(Top)[1] >= 0 /\ Fetch)
  \/ StepR \/ StepAlign \/ StepBlock \/ StepBuild \/ StepIncl \/ StepHdr \/ RFinish

ReadDone == rstatus # "run"
Result == vals[1]

\* frames for the public entry points and for body-only runs
FullFrames(T) == <<FHdr("magic", T, "full")>>
EpsFrames(T)  == <<FHdr("magic", T, "eps")>>
BodyFrames(T, m) == <<FR(T, m)>>

=============================================================================
