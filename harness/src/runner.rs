//! Generic per-type runners: drive the real library for one case and report
//! what was observed (the comparison with the specification's prediction is
//! done by the check runner, not here).

use crate::alloc;
use crate::model::*;
use crate::sinks::*;
use core::marker::PhantomData;
use epserde::deser::{self, DeserializeInner, ReadNoStd, ReadWithPos, ReaderWithPos, SliceWithPos};
use epserde::prelude::{Deserialize, SerIter, Serialize};
use epserde::ser::{self, SerializeInner, WriteNoStd, WriteWithNames, WriteWithPos, WriterWithPos};
use epserde::traits::{AlignHash, MaxSizeOf, TypeHash, ZeroCopy};
use serde_json::{json, Value};
use std::panic::{catch_unwind, AssertUnwindSafe};

pub trait Runner: Send + Sync {
    fn facts(&self) -> Value;
    fn run(&self, case: &Value) -> Value;
    fn arb(&self, g: &mut Gen) -> AVal;
    fn desc(&self) -> Value;
    /// one recorded execution on a random value (events for trace validation); default: none
    fn trace(&self, _g: &mut Gen, _out: &mut Vec<Value>) {}
}

// ---------------------------------------------------------------------------
// recording hasher: the exact preimage of a type / align hash

#[derive(Default)]
pub struct RecHasher(pub Vec<u8>);
impl core::hash::Hasher for RecHasher {
    fn finish(&self) -> u64 { 0 }
    fn write(&mut self, bytes: &[u8]) { self.0.extend_from_slice(bytes); }
}
pub fn xxh3(bytes: &[u8]) -> u64 {
    use core::hash::Hasher;
    let mut h = xxhash_rust::xxh3::Xxh3::new();
    h.write(bytes);
    h.finish()
}
/// bytes of a token preimage of the specification: ["s", str] = bytes + 0xFF, ["u", n] = usize, ["b", n] = u8
pub fn tokens_to_bytes(toks: &Value) -> Vec<u8> {
    let mut out = vec![];
    for t in toks.as_array().unwrap() {
        let kind = t[0].as_str().unwrap();
        match kind {
            "s" => { out.extend_from_slice(t[1].as_str().unwrap().as_bytes()); out.push(0xff); }
            "u" => out.extend_from_slice(&(t[1].as_u64().unwrap() as usize).to_ne_bytes()),
            "b" => out.push(t[1].as_u64().unwrap() as u8),
            _ => panic!("token"),
        }
    }
    out
}

// ---------------------------------------------------------------------------
// recording WriteWithNames / ReadWithPos wrappers delegating to the real ones

pub struct RecW<'a, F: WriteNoStd> {
    pub inner: WriterWithPos<'a, F>,
    pub ev: Vec<Value>,
}
impl<F: WriteNoStd> WriteNoStd for RecW<'_, F> {
    fn write_all(&mut self, buf: &[u8]) -> ser::Result<()> { self.inner.write_all(buf) }
    fn flush(&mut self) -> ser::Result<()> {
        let r = self.inner.flush();
        self.ev.push(json!({"ev": "flush", "ok": r.is_ok()}));
        r
    }
}
impl<F: WriteNoStd> WriteWithPos for RecW<'_, F> {
    fn pos(&self) -> usize { self.inner.pos() }
}
impl<F: WriteNoStd> WriteWithNames for RecW<'_, F> {
    fn align<V: MaxSizeOf>(&mut self) -> ser::Result<()> {
        let before = self.inner.pos();
        let unit = V::max_size_of();
        let r = self.inner.align::<V>();
        self.ev.push(json!({"ev": "align", "unit": unit, "pos": before, "after": self.inner.pos(), "ok": r.is_ok()}));
        r
    }
    fn write<V: SerializeInner>(&mut self, field_name: &str, value: &V) -> ser::Result<()> {
        self.ev.push(json!({"ev": "enter", "name": field_name, "pos": self.inner.pos()}));
        let r = value._serialize_inner(self);
        self.ev.push(json!({"ev": "exit", "pos": self.inner.pos(), "ok": r.is_ok()}));
        r
    }
    fn write_bytes<V: SerializeInner + ZeroCopy>(&mut self, value: &[u8]) -> ser::Result<()> {
        self.ev.push(json!({"ev": "block", "unit": V::max_size_of(), "pos": self.inner.pos(), "len": value.len(),
            "al": core::mem::align_of::<V>()}));
        self.inner.write_bytes::<V>(value)
    }
}

pub struct RecR<'a, F: ReadNoStd> {
    pub inner: ReaderWithPos<'a, F>,
    pub ev: Vec<Value>,
}
impl<F: ReadNoStd> ReadNoStd for RecR<'_, F> {
    fn read_exact(&mut self, buf: &mut [u8]) -> deser::Result<()> {
        let before = self.inner.pos();
        let r = self.inner.read_exact(buf);
        self.ev.push(json!({"ev": "rd", "pos": before, "len": buf.len(), "ok": r.is_ok()}));
        r
    }
}
impl<F: ReadNoStd> ReadWithPos for RecR<'_, F> {
    fn pos(&self) -> usize { self.inner.pos() }
    fn align<T: MaxSizeOf>(&mut self) -> deser::Result<()> {
        let before = self.inner.pos();
        let r = self.inner.align::<T>();
        self.ev.push(json!({"ev": "ralign", "unit": T::max_size_of(), "pos": before, "after": self.inner.pos(), "ok": r.is_ok()}));
        r
    }
}

// ---------------------------------------------------------------------------
// recorded executions: one ordered log shared by the sink (every write_all call) and the
// WriteWithNames wrapper (enter / exit / align / block / flush)

pub type Log = std::rc::Rc<std::cell::RefCell<Vec<Value>>>;
pub struct LogSink { pub out: Vec<u8>, pub log: Log }
impl WriteNoStd for LogSink {
    fn write_all(&mut self, buf: &[u8]) -> ser::Result<()> {
        self.log.borrow_mut().push(json!({"ev": "w", "pos": self.out.len(), "bytes": buf.to_vec()}));
        self.out.extend_from_slice(buf);
        Ok(())
    }
    fn flush(&mut self) -> ser::Result<()> { self.log.borrow_mut().push(json!({"ev": "flush"})); Ok(()) }
}
pub struct LogW<'a> { pub inner: WriterWithPos<'a, LogSink>, pub log: Log }
impl WriteNoStd for LogW<'_> {
    fn write_all(&mut self, buf: &[u8]) -> ser::Result<()> { self.inner.write_all(buf) }
    fn flush(&mut self) -> ser::Result<()> { self.inner.flush() }
}
impl WriteWithPos for LogW<'_> { fn pos(&self) -> usize { self.inner.pos() } }
impl WriteWithNames for LogW<'_> {
    fn align<V: MaxSizeOf>(&mut self) -> ser::Result<()> {
        self.log.borrow_mut().push(json!({"ev": "align", "unit": V::max_size_of(), "pos": self.inner.pos()}));
        self.inner.align::<V>()
    }
    fn write<V: SerializeInner>(&mut self, field_name: &str, value: &V) -> ser::Result<()> {
        self.log.borrow_mut().push(json!({"ev": "enter", "name": field_name, "pos": self.inner.pos()}));
        let r = value._serialize_inner(self);
        self.log.borrow_mut().push(json!({"ev": "exit", "pos": self.inner.pos()}));
        r
    }
    fn write_bytes<V: SerializeInner + ZeroCopy>(&mut self, value: &[u8]) -> ser::Result<()> {
        self.log.borrow_mut().push(json!({"ev": "block", "unit": V::max_size_of(), "pos": self.inner.pos(), "len": value.len()}));
        self.inner.write_bytes::<V>(value)
    }
}
/// Record one public serialization: events of the run, then `ret`, then the schema rows of the same value.
pub fn trace_ser<S: Serialize>(x: &S, out: &mut Vec<Value>) -> Vec<u8> {
    let log: Log = Default::default();
    let mut sink = LogSink { out: vec![], log: log.clone() };
    let r = catch_unwind(AssertUnwindSafe(|| {
        let mut w = LogW { inner: WriterWithPos::new(&mut sink), log: log.clone() };
        let r = x.serialize_on_field_write(&mut w);
        (r.is_ok(), w.inner.pos())
    }));
    out.append(&mut log.borrow_mut());
    match r {
        Ok((ok, n)) => out.push(json!({"ev": "ret", "st": if ok { "ok" } else { "err" }, "n": n})),
        Err(p) => out.push(json!({"ev": "ret", "st": "panic", "n": 0, "msg": panic_msg(p)})),
    }
    let sc = obs_schema(x);
    if sc["st"] == "ok" {
        let rows: Vec<Value> = sc["rows"].as_array().unwrap().iter().map(|r| {
            json!({"field": r["field"].as_str().unwrap().split('.').collect::<Vec<_>>(), "off": r["off"], "size": r["size"], "align": r["align"]})
        }).collect();
        out.push(json!({"ev": "rows", "rows": rows, "same_bytes": sc["out"] == bytes_json(&sink.out)}));
    }
    sink.out
}

// ---------------------------------------------------------------------------
// outcome rendering

pub fn panic_msg(p: Box<dyn std::any::Any + Send>) -> String {
    if let Some(s) = p.downcast_ref::<&str>() { s.to_string() }
    else if let Some(s) = p.downcast_ref::<String>() { s.clone() }
    else { "panic".into() }
}
pub fn ser_err(e: &ser::Error) -> Value {
    match e {
        ser::Error::WriteError => json!({"st": "WriteError", "detail": []}),
        ser::Error::FileOpenError(_) => json!({"st": "FileOpenError", "detail": []}),
        ser::Error::IteratorLengthMismatch { actual, expected } =>
            json!({"st": "LengthMismatch", "detail": [actual, expected]}),
    }
}
pub fn deser_err(e: &deser::Error) -> Value {
    use deser::Error::*;
    match e {
        FileOpenError(_) => json!({"st": "FileOpenError", "detail": []}),
        ReadError => json!({"st": "ReadError", "detail": []}),
        EndiannessError => json!({"st": "EndiannessError", "detail": []}),
        AlignmentError => json!({"st": "AlignmentError", "detail": []}),
        MajorVersionMismatch(v) => json!({"st": "MajorVersionMismatch", "detail": [v]}),
        MinorVersionMismatch(v) => json!({"st": "MinorVersionMismatch", "detail": [v]}),
        UsizeSizeMismatch(v) => json!({"st": "UsizeSizeMismatch", "detail": [v]}),
        MagicCookieError(v) => json!({"st": "MagicCookieError", "detail": v.to_ne_bytes().to_vec()}),
        InvalidTag(v) => json!({"st": "InvalidTag", "detail": v.to_ne_bytes().to_vec()}),
        WrongTypeHash { ser_type_hash, self_type_hash, .. } =>
            json!({"st": "WrongTypeHash", "detail": ser_type_hash.to_ne_bytes().to_vec(), "self": self_type_hash.to_ne_bytes().to_vec()}),
        WrongAlignHash { ser_align_hash, self_align_hash, .. } =>
            json!({"st": "WrongAlignHash", "detail": ser_align_hash.to_ne_bytes().to_vec(), "self": self_align_hash.to_ne_bytes().to_vec()}),
    }
}
pub fn anyhow_err(e: &anyhow::Error) -> Value {
    if let Some(d) = e.downcast_ref::<deser::Error>() { deser_err(d) }
    else { json!({"st": "Io", "detail": [], "msg": e.to_string()}) }
}

/// A copy of `bytes` placed at an address congruent to `residue` modulo 128 (exactly sized slice).
pub struct Placed { buf: Vec<u8>, start: usize, len: usize }
impl Placed {
    pub fn new(bytes: &[u8], residue: usize) -> Self {
        let mut buf = vec![0xEEu8; bytes.len() + 256];
        let a = buf.as_ptr() as usize;
        let start = (residue + 128 - (a % 128)) % 128;
        buf[start..start + bytes.len()].copy_from_slice(bytes);
        Placed { buf, start, len: bytes.len() }
    }
    pub fn slice(&self) -> &[u8] { &self.buf[self.start..self.start + self.len] }
}

/// A copy of `bytes` that ends exactly at a PROT_NONE page: a read past the end faults.
pub struct GuardPlaced { map: *mut u8, map_len: usize, start: usize, len: usize }
impl GuardPlaced {
    pub fn new(bytes: &[u8]) -> Self {
        let page = 4096usize;
        let data_pages = (bytes.len() + page - 1) / page + 1;
        let map_len = (data_pages + 1) * page;
        unsafe {
            let map = libc::mmap(core::ptr::null_mut(), map_len, libc::PROT_READ | libc::PROT_WRITE,
                                 libc::MAP_PRIVATE | libc::MAP_ANONYMOUS, -1, 0) as *mut u8;
            assert!(map as isize != -1, "mmap failed");
            let guard = map.add(data_pages * page);
            let start = data_pages * page - bytes.len();
            core::ptr::copy_nonoverlapping(bytes.as_ptr(), map.add(start), bytes.len());
            let r = libc::mprotect(guard as *mut libc::c_void, page, libc::PROT_NONE);
            assert!(r == 0, "mprotect failed");
            GuardPlaced { map, map_len, start, len: bytes.len() }
        }
    }
    pub fn slice(&self) -> &[u8] { unsafe { core::slice::from_raw_parts(self.map.add(self.start), self.len) } }
}
impl Drop for GuardPlaced {
    fn drop(&mut self) { unsafe { libc::munmap(self.map as *mut libc::c_void, self.map_len); } }
}

fn u(v: &Value, k: &str) -> usize { v[k].as_u64().unwrap_or(0) as usize }
fn opt_u(v: &Value, k: &str) -> Option<usize> { v.get(k).and_then(|x| x.as_u64()).map(|x| x as usize) }
fn usv(v: &Value, k: &str) -> Vec<usize> {
    v.get(k).and_then(|x| x.as_array()).map(|a| a.iter().map(|x| x.as_u64().unwrap() as usize).collect()).unwrap_or_default()
}
fn bytes_json(b: &[u8]) -> Value { Value::Array(b.iter().map(|x| json!(*x)).collect()) }

// ---------------------------------------------------------------------------
// generic observation primitives (everything generic is kept small; comparisons are not generic)

/// Serialize through the public entry point into a DirectSink.
pub fn obs_ser_pub<S: Serialize>(x: &S, sink: &mut DirectSink) -> Value {
    let r = catch_unwind(AssertUnwindSafe(|| x.serialize(sink)));
    match r {
        Ok(Ok(n)) => json!({"st": "ok", "detail": [], "n": n}),
        Ok(Err(e)) => ser_err(&e),
        Err(p) => json!({"st": "panic", "detail": [], "msg": panic_msg(p)}),
    }
}
pub fn obs_ser_std<S: Serialize>(x: &S, sink: &mut StdSink) -> Value {
    let r = catch_unwind(AssertUnwindSafe(|| x.serialize(sink)));
    match r {
        Ok(Ok(n)) => json!({"st": "ok", "detail": [], "n": n}),
        Ok(Err(e)) => ser_err(&e),
        Err(p) => json!({"st": "panic", "detail": [], "msg": panic_msg(p)}),
    }
}
/// Serialize the value only (`_serialize_inner`) at stream position `pre` with the recording wrapper.
pub fn obs_ser_body<S: SerializeInner>(x: &S, pre: usize, sink: &mut DirectSink, ev: &mut Vec<Value>) -> Value {
    let r = catch_unwind(AssertUnwindSafe(|| {
        let mut w = RecW { inner: WriterWithPos::new(sink), ev: vec![] };
        // move the writer to position `pre` (filler bytes the sink sees too; they are cut off afterwards)
        let filler = vec![0u8; pre];
        let r0 = w.inner.write_all(&filler);
        let r = r0.and_then(|_| x._serialize_inner(&mut w));
        let pos = w.inner.pos();
        (r, pos, w.ev)
    }));
    match r {
        Ok((Ok(()), pos, e)) => { *ev = e; json!({"st": "ok", "detail": [], "n": pos}) }
        Ok((Err(e), _, evs)) => { *ev = evs; ser_err(&e) }
        Err(p) => json!({"st": "panic", "detail": [], "msg": panic_msg(p)}),
    }
}
/// Public path with the recording wrapper (header + ROOT + flush).
pub fn obs_ser_rec<S: Serialize>(x: &S, sink: &mut DirectSink, ev: &mut Vec<Value>) -> Value {
    let r = catch_unwind(AssertUnwindSafe(|| {
        let mut w = RecW { inner: WriterWithPos::new(sink), ev: vec![] };
        let r = x.serialize_on_field_write(&mut w);
        let pos = w.inner.pos();
        (r, pos, w.ev)
    }));
    match r {
        Ok((Ok(()), pos, e)) => { *ev = e; json!({"st": "ok", "detail": [], "n": pos}) }
        Ok((Err(e), _, evs)) => { *ev = evs; ser_err(&e) }
        Err(p) => json!({"st": "panic", "detail": [], "msg": panic_msg(p)}),
    }
}
pub fn obs_schema<S: Serialize>(x: &S) -> Value {
    let r = catch_unwind(AssertUnwindSafe(|| {
        let mut sink = DirectSink::default();
        let r = x.serialize_with_schema(&mut sink);
        (r, sink.out)
    }));
    match r {
        Ok((Ok(schema), out)) => {
            let rows: Vec<Value> = schema.0.iter().map(|r| json!({"field": r.field, "off": r.offset, "size": r.size, "align": r.align, "ty": r.ty})).collect();
            let csv = catch_unwind(AssertUnwindSafe(|| schema.to_csv()));
            let dbg = catch_unwind(AssertUnwindSafe(|| schema.debug(&out)));
            json!({"st": "ok", "rows": rows, "out": bytes_json(&out),
                   "csv_ok": csv.is_ok(), "debug_ok": dbg.is_ok(),
                   "csv_lines": csv.map(|s| s.lines().count()).unwrap_or(0),
                   "debug_lines": dbg.map(|s| s.lines().count()).unwrap_or(0)})
        }
        Ok((Err(e), _)) => ser_err(&e),
        Err(p) => json!({"st": "panic", "detail": [], "msg": panic_msg(p)}),
    }
}

/// Public serialization under a sink schedule. `sink.kind` = "direct" (WriteNoStd sink: reject call n after
/// `partial` bytes, or fail at byte k, or fail on flush) or "std" (std::io::Write sink: chunks, interrupts,
/// fail_at, zero_at, fail_flush).
pub fn ser_with_schedule<S: Serialize>(x: &S, case: &Value) -> Value {
    let sk = &case["sink"];
    if case["api"].as_str() == Some("schema") {
        // serialize_with_schema under the same (direct) sink schedule
        let mut sink = DirectSink::default();
        sink.fail_at = opt_u(sk, "fail_at");
        sink.reject_call = opt_u(sk, "reject_call");
        sink.partial = u(sk, "partial");
        sink.fail_flush = sk["fail_flush"].as_bool().unwrap_or(false);
        let r = catch_unwind(AssertUnwindSafe(|| x.serialize_with_schema(&mut sink).map(|_| ())));
        let mut s = match r {
            Ok(Ok(())) => json!({"st": "ok", "detail": []}),
            Ok(Err(e)) => ser_err(&e),
            Err(p) => json!({"st": "panic", "detail": [], "msg": panic_msg(p)}),
        };
        s["out"] = bytes_json(&sink.out);
        s["flushes"] = json!(sink.flushes);
        return s;
    }
    if sk["kind"].as_str().unwrap_or("direct") == "std" {
        let mut sink = StdSink::default();
        sink.chunks = usv(sk, "chunks");
        sink.intr_every = u(sk, "intr_every");
        sink.fail_at = opt_u(sk, "fail_at");
        sink.zero_at = opt_u(sk, "zero_at");
        sink.fail_flush = sk["fail_flush"].as_bool().unwrap_or(false);
        let mut s = obs_ser_std(x, &mut sink);
        s["out"] = bytes_json(&sink.out);
        s["flushes"] = json!(sink.flushes);
        s["calls"] = Value::Array(sink.calls.iter().map(|(a, b)| json!([a, b])).collect());
        s
    } else {
        let mut sink = DirectSink::default();
        sink.fail_at = opt_u(sk, "fail_at");
        sink.reject_call = opt_u(sk, "reject_call");
        sink.partial = u(sk, "partial");
        sink.fail_flush = sk["fail_flush"].as_bool().unwrap_or(false);
        let mut s = obs_ser_pub(x, &mut sink);
        s["out"] = bytes_json(&sink.out);
        s["flushes"] = json!(sink.flushes);
        s["ncalls"] = json!(sink.calls.len());
        s
    }
}

pub struct R<T, D>(PhantomData<fn() -> (T, D)>, Option<fn() -> Value>);
impl<T, D> R<T, D> {
    pub fn new() -> Self { R(PhantomData, None) }
    pub fn zc(f: fn() -> Value) -> Self { R(PhantomData, Some(f)) }
}
pub fn zc_facts<T: ZeroCopy>() -> Value {
    json!({"size": core::mem::size_of::<T>(), "align": core::mem::align_of::<T>(),
           "unit": catch_unwind(|| T::max_size_of()).map(|x| json!(x)).unwrap_or(json!(-1))})
}

fn full_outcome<T: Model>(r: std::thread::Result<(deser::Result<T>, usize)>) -> Value {
    match r {
        Ok((Ok(x), consumed)) => json!({"st": "ok", "detail": [], "val": [x.to_aval()], "rpos": consumed}),
        Ok((Err(e), consumed)) => { let mut o = deser_err(&e); o["rpos"] = json!(consumed); o }
        Err(p) => json!({"st": "panic", "detail": [], "msg": panic_msg(p)}),
    }
}

impl<T, D> R<T, D>
where
    T: Model + SerializeInner + DeserializeInner + TypeHash + AlignHash,
    T::SerType: TypeHash + AlignHash,
    for<'a> <T as DeserializeInner>::DeserType<'a>: Proj,
    D: 'static,
{
    fn de_full_pub(bytes: &[u8], cfg: &Value) -> Value {
        let mut rd = StdReader::new(bytes.to_vec());
        rd.chunks = usv(cfg, "chunks");
        rd.intr_every = u(cfg, "intr_every");
        rd.fail_at = opt_u(cfg, "fail_at");
        let r = catch_unwind(AssertUnwindSafe(|| { let r = T::deserialize_full(&mut rd); (r, rd.pos) }));
        let mut o = full_outcome(r);
        o["calls"] = json!(rd.calls.len());
        o
    }
    fn de_full_body(buf: &[u8], pre: usize, ev: &mut Vec<Value>) -> Value {
        let mut rd = DirectReader { data: buf.to_vec(), ..Default::default() };
        let r = catch_unwind(AssertUnwindSafe(|| {
            let mut w = RecR { inner: ReaderWithPos::new(&mut rd), ev: vec![] };
            let mut filler = vec![0u8; pre];
            let r = w.inner.read_exact(&mut filler).and_then(|_| T::_deserialize_full_inner(&mut w));
            let pos = w.inner.pos();
            (r, pos, w.ev)
        }));
        match r {
            Ok((r, pos, e)) => { *ev = e; full_outcome(Ok((r, pos))) }
            Err(p) => json!({"st": "panic", "detail": [], "msg": panic_msg(p)}),
        }
    }
    fn eps_outcome(buf: &[u8], r: std::thread::Result<deser::Result<(<T as DeserializeInner>::DeserType<'_>, usize)>>) -> Value {
        match r {
            Ok(Ok((x, consumed))) => {
                let mut c = Ctx::new(buf);
                let v = x.proj(&mut c);
                json!({"st": "ok", "detail": [], "val": [v], "borrows": c.borrows, "rpos": consumed})
            }
            Ok(Err(e)) => deser_err(&e),
            Err(p) => json!({"st": "panic", "detail": [], "msg": panic_msg(p)}),
        }
    }
    fn de_eps_pub(buf: &[u8]) -> Value {
        let (r, bytes, calls) = alloc::measure(|| catch_unwind(AssertUnwindSafe(|| T::deserialize_eps(buf).map(|x| (x, usize::MAX)))));
        let mut o = Self::eps_outcome(buf, r);
        o["alloc_bytes"] = json!(bytes);
        o["alloc_calls"] = json!(calls);
        o
    }
    fn de_eps_body(buf: &[u8], pre: usize) -> Value {
        let r = catch_unwind(AssertUnwindSafe(|| {
            let mut s = SliceWithPos::new(buf);
            s.skip(pre);
            T::_deserialize_eps_inner(&mut s).map(|x| (x, s.pos))
        }));
        Self::eps_outcome(buf, r)
    }

    /// Deserialize the given bytes through the public entry points: full copy with a reader
    /// schedule, ε-copy at the given address residue (exactly sized slice).
    fn de(&self, case: &Value) -> Value {
        let bytes = bytes_of(&case["bytes"]);
        let mut o = json!({});
        if case["full"].as_bool().unwrap_or(true) {
            o["full"] = Self::de_full_pub(&bytes, &case["reader"]);
        }
        if case["eps"].as_bool().unwrap_or(true) {
            if case["guard"].as_bool().unwrap_or(false) {
                let p = GuardPlaced::new(&bytes);
                let mut e = Self::de_eps_pub(p.slice());
                e["base_res"] = json!(p.slice().as_ptr() as usize % 128);
                o["eps"] = e;
            } else {
                let p = Placed::new(&bytes, u(case, "base"));
                o["eps"] = Self::de_eps_pub(p.slice());
            }
        }
        o
    }
    /// Serialize a value through the public entry point with a sink schedule.
    fn ser(&self, case: &Value) -> Value {
        let x = T::from_aval(&case["v"]);
        ser_with_schedule(&x, case)
    }

    /// Round trip of one (value, placement) through every entry point of interest.
    fn rt(&self, case: &Value) -> Value {
        let v = &case["v"];
        let x = T::from_aval(v);
        let mode = case["mode"].as_str().unwrap_or("pub");
        let base = u(case, "base");
        let mut o = json!({});
        if mode == "pub" {
            let mut sink = DirectSink::default();
            let mut s = obs_ser_pub(&x, &mut sink);
            s["out"] = bytes_json(&sink.out);
            s["flushes"] = json!(sink.flushes);
            let bytes = sink.out.clone();
            // the same through std::io::Write (a plain Vec) must give the same bytes
            let mut ss = StdSink::default();
            let s2 = obs_ser_std(&x, &mut ss);
            s["std_same"] = json!(s2["st"] == s["st"] && ss.out == bytes && s2["n"] == s["n"]);
            // structure of the run (recording WriteWithNames delegating to the real WriterWithPos)
            let mut rsink = DirectSink::default();
            let mut ev = vec![];
            let s3 = obs_ser_rec(&x, &mut rsink, &mut ev);
            s["rec_same"] = json!(s3["st"] == s["st"] && rsink.out == bytes);
            s["ev"] = Value::Array(ev);
            o["ser"] = s;
            o["schema"] = obs_schema(&x);
            if o["ser"]["st"] == "ok" {
                o["full"] = Self::de_full_pub(&bytes, &json!({}));
                let p = Placed::new(&bytes, base);
                o["eps"] = Self::de_eps_pub(p.slice());
            }
        } else {
            let pre = u(case, "pre");
            let mut sink = DirectSink::default();
            let mut ev = vec![];
            let mut s = obs_ser_body(&x, pre, &mut sink, &mut ev);
            let bytes = if sink.out.len() >= pre { sink.out[pre..].to_vec() } else { vec![] };
            s["out"] = bytes_json(&bytes);
            s["ev"] = Value::Array(ev);
            o["ser"] = s;
            if o["ser"]["st"] == "ok" {
                let mut rev = vec![];
                let mut f = Self::de_full_body(&sink.out, pre, &mut rev);
                f["ev"] = Value::Array(rev);
                o["full"] = f;
                let p = Placed::new(&sink.out, base);
                o["eps"] = Self::de_eps_body(p.slice(), pre);
            }
        }
        o
    }
}

impl<T, D> Runner for R<T, D>
where
    T: Model + SerializeInner + DeserializeInner + TypeHash + AlignHash,
    T::SerType: TypeHash + AlignHash,
    for<'a> <T as DeserializeInner>::DeserType<'a>: Proj,
    D: 'static,
{
    fn facts(&self) -> Value {
        let mut th = RecHasher::default();
        T::type_hash(&mut th);
        let mut ah = RecHasher::default();
        let mut off = 0usize;
        T::align_hash(&mut ah, &mut off);
        let mut sth = RecHasher::default();
        <T::SerType as TypeHash>::type_hash(&mut sth);
        let mut sah = RecHasher::default();
        let mut off2 = 0usize;
        <T::SerType as AlignHash>::align_hash(&mut sah, &mut off2);
        json!({
            "name_len": core::any::type_name::<T::SerType>().len(),
            "self_name_len": core::any::type_name::<T>().len(),
            "iszcconst": T::IS_ZERO_COPY,
            "mismatch": T::ZERO_COPY_MISMATCH,
            "th": th.0, "ah": ah.0, "ser_th": sth.0, "ser_ah": sah.0,
            "deser_name": core::any::type_name::<<T as DeserializeInner>::DeserType<'static>>(),
            "pred_deser_name": core::any::type_name::<D>(),
            "zc": self.1.map(|f| f()).unwrap_or(Value::Null),
        })
    }
    fn run(&self, case: &Value) -> Value {
        match case["cmd"].as_str().unwrap_or("rt") {
            "rt" => self.rt(case),
            "de" => self.de(case),
            "ser" => self.ser(case),
            "serarb" => {
                // serialize a seeded arbitrary value of the type
                let mut g = Gen::new(case["seed"].as_u64().unwrap_or(1), 6);
                let x = T::arb(&mut g);
                let mut s = ser_with_schedule(&x, &json!({}));
                s["v"] = x.to_aval();
                s
            }
            other => json!({"error": format!("unknown cmd {other}")}),
        }
    }
    fn arb(&self, g: &mut Gen) -> AVal { T::arb(g).to_aval() }
    fn desc(&self) -> Value { T::desc() }
    fn trace(&self, g: &mut Gen, out: &mut Vec<Value>) {
        let x = T::arb(g);
        let v = x.to_aval();
        out.push(json!({"ev": "init", "engine": "ser", "t": T::desc(), "v": v,
                        "nameLen": core::any::type_name::<T::SerType>().len()}));
        let bytes = trace_ser(&x, out);
        // both readers on the recorded stream: the abstract value they return
        let f = Self::de_full_pub(&bytes, &json!({}));
        out.push(json!({"ev": "full", "st": f["st"], "val": f.get("val").cloned().unwrap_or(json!([])), "rpos": f.get("rpos").cloned().unwrap_or(json!(0))}));
        let p = Placed::new(&bytes, 0);
        let e = Self::de_eps_pub(p.slice());
        out.push(json!({"ev": "eps", "st": e["st"], "val": e.get("val").cloned().unwrap_or(json!([])),
                        "borrows": e.get("borrows").cloned().unwrap_or(json!([]))}));
        // the full-copy reader observed call by call: check_header + _deserialize_full_inner on a recording
        // ReadWithPos that delegates to the real ReaderWithPos
        out.push(json!({"ev": "rinit", "t": T::desc(), "v": v, "bytes": bytes}));
        let mut rd = DirectReader { data: bytes.clone(), ..Default::default() };
        let r = catch_unwind(AssertUnwindSafe(|| {
            let mut w = RecR { inner: ReaderWithPos::new(&mut rd), ev: vec![] };
            let r = deser::check_header::<T>(&mut w).and_then(|_| T::_deserialize_full_inner(&mut w));
            let pos = w.inner.pos();
            (r, pos, w.ev)
        }));
        match r {
            Ok((r, pos, evs)) => {
                out.extend(evs);
                let f = full_outcome(Ok((r, pos)));
                out.push(json!({"ev": "rret", "st": f["st"], "val": f.get("val").cloned().unwrap_or(json!([])), "rpos": pos}));
            }
            Err(p) => out.push(json!({"ev": "rret", "st": "panic", "val": [], "rpos": 0, "msg": panic_msg(p)})),
        }
    }
}

// ---------------------------------------------------------------------------
// serialize-only sources: slice references and exact-size iterators

macro_rules! src_runner {
    ($name:ident, $bound:path) => {
        pub struct $name<T>(PhantomData<fn() -> T>);
        impl<T> $name<T> { pub fn new() -> Self { $name(PhantomData) } }
    };
}
src_runner!(SliceSrc, Model);
src_runner!(IterSrc, Model);
src_runner!(GSliceSrc, Model);
src_runner!(GIterSrc, Model);
src_runner!(SliceSliceSrc, Model);

/// An ExactSizeIterator that announces `ann` items but yields all of `it`.
pub struct Lying<I> { pub it: I, pub ann: usize }
impl<I: Iterator> Iterator for Lying<I> {
    type Item = I::Item;
    fn next(&mut self) -> Option<I::Item> { self.it.next() }
    fn size_hint(&self) -> (usize, Option<usize>) { (self.ann, Some(self.ann)) }
}
impl<I: Iterator> ExactSizeIterator for Lying<I> { fn len(&self) -> usize { self.ann } }

fn src_obs<S: Serialize>(x: &S, case: &Value) -> Value {
    let mut s = ser_with_schedule(x, case);
    let mut o = json!({});
    if case.get("sink").map(|k| k.is_null()).unwrap_or(true) {
        let mut rsink = DirectSink::default();
        let mut ev = vec![];
        let s3 = obs_ser_rec(x, &mut rsink, &mut ev);
        s["rec_same"] = json!(s3["st"] == s["st"] && bytes_json(&rsink.out) == s["out"]);
        s["ev"] = Value::Array(ev);
        o["schema"] = obs_schema(x);
    }
    o["ser"] = s;
    o
}
fn src_facts<S: SerializeInner>() -> Value where S::SerType: TypeHash + AlignHash {
    let mut sth = RecHasher::default();
    <S::SerType as TypeHash>::type_hash(&mut sth);
    let mut sah = RecHasher::default();
    let mut off2 = 0usize;
    <S::SerType as AlignHash>::align_hash(&mut sah, &mut off2);
    json!({"name_len": core::any::type_name::<S::SerType>().len(), "ser_th": sth.0, "ser_ah": sah.0, "src": true})
}
fn ann_of(case: &Value, n: usize) -> usize {
    match case.get("ann").and_then(|a| a.as_i64()) { Some(a) if a >= 0 => a as usize, _ => n }
}
/// protect the buffer of the source vector while the library holds a borrow of it
fn with_protected<T, R>(v: &Vec<T>, f: impl FnOnce() -> R) -> (R, u64) {
    if v.capacity() > 0 && core::mem::size_of::<T>() > 0 { alloc::protect(v.as_ptr() as usize); }
    let r = f();
    alloc::unprotect_all();
    (r, alloc::take_wrong_frees())
}

impl<T> Runner for SliceSrc<T>
where T: Model + SerializeInner + TypeHash + AlignHash + epserde::traits::CopyType, for<'a> &'a [T]: SerializeInner,
      for<'a> <&'a [T] as SerializeInner>::SerType: TypeHash + AlignHash {
    fn facts(&self) -> Value { src_facts::<&'static [T]>() }
    fn run(&self, case: &Value) -> Value {
        let v: Vec<T> = Vec::<T>::from_aval(&case["v"]);
        let before = v.to_aval();
        let (mut o, wf) = with_protected(&v, || { let s: &[T] = &v[..]; src_obs(&s, case) });
        o["src_freed"] = json!(wf);
        o["src_same"] = json!(v.to_aval() == before);
        o
    }
    fn arb(&self, g: &mut Gen) -> AVal { Vec::<T>::arb(g).to_aval() }
    fn desc(&self) -> Value { json!({"k": "slice", "elem": T::desc()}) }
}
impl<T> Runner for IterSrc<T>
where T: Model + ZeroCopy + SerializeInner + TypeHash + AlignHash {
    fn facts(&self) -> Value { src_facts::<SerIter<'static, T, std::slice::Iter<'static, T>>>() }
    fn run(&self, case: &Value) -> Value {
        let v: Vec<T> = Vec::<T>::from_aval(&case["v"]);
        let before = v.to_aval();
        let ann = ann_of(case, v.len());
        let (mut o, wf) = with_protected(&v, || {
            let it = SerIter::new(Lying { it: v.iter(), ann });
            src_obs(&it, case)
        });
        o["src_freed"] = json!(wf);
        o["src_same"] = json!(v.to_aval() == before);
        o
    }
    fn arb(&self, g: &mut Gen) -> AVal { Vec::<T>::arb(g).to_aval() }
    fn desc(&self) -> Value { json!({"k": "seriter", "elem": T::desc()}) }
}
/// `&[&[T]]`: a slice of deep-copy items that are slice references (serializes like `Vec<Vec<T>>`)
impl<T> Runner for SliceSliceSrc<T>
where T: Model + SerializeInner + TypeHash + AlignHash + epserde::traits::CopyType,
      for<'a> &'a [&'a [T]]: SerializeInner,
      for<'a> <&'a [&'a [T]] as SerializeInner>::SerType: TypeHash + AlignHash {
    fn facts(&self) -> Value { src_facts::<&'static [&'static [T]]>() }
    fn run(&self, case: &Value) -> Value {
        let vv: Vec<Vec<T>> = Vec::<Vec<T>>::from_aval(&case["v"]);
        let before = vv.to_aval();
        let inner: Vec<&[T]> = vv.iter().map(|v| &v[..]).collect();
        let mut o = { let s: &[&[T]] = &inner[..]; src_obs(&s, case) };
        o["src_freed"] = json!(0);
        o["src_same"] = json!(vv.to_aval() == before);
        o
    }
    fn arb(&self, g: &mut Gen) -> AVal { Vec::<Vec<T>>::arb(g).to_aval() }
    fn desc(&self) -> Value { json!({"k": "slice", "elem": {"k": "slice", "elem": T::desc()}}) }
}
use crate::universe::G;
impl<T> Runner for GSliceSrc<T>
where T: Model + SerializeInner + TypeHash + AlignHash + epserde::traits::CopyType,
      for<'a> G<&'a [T]>: SerializeInner,
      for<'a> <G<&'a [T]> as SerializeInner>::SerType: TypeHash + AlignHash {
    fn facts(&self) -> Value { src_facts::<G<&'static [T]>>() }
    fn run(&self, case: &Value) -> Value {
        let id = u64::from_aval(&case["v"][0]);
        let v: Vec<T> = Vec::<T>::from_aval(&case["v"][1]);
        let before = v.to_aval();
        let (mut o, wf) = with_protected(&v, || { let g = G { id, data: &v[..] }; src_obs(&g, case) });
        o["src_freed"] = json!(wf);
        o["src_same"] = json!(v.to_aval() == before);
        o
    }
    fn arb(&self, g: &mut Gen) -> AVal { json!([u64::arb(g).to_aval(), Vec::<T>::arb(g).to_aval()]) }
    fn desc(&self) -> Value { <G<Vec<T>> as Model>::desc() }
}
impl<T> Runner for GIterSrc<T>
where T: Model + ZeroCopy + SerializeInner + TypeHash + AlignHash {
    fn facts(&self) -> Value { src_facts::<G<SerIter<'static, T, std::slice::Iter<'static, T>>>>() }
    fn run(&self, case: &Value) -> Value {
        let id = u64::from_aval(&case["v"][0]);
        let v: Vec<T> = Vec::<T>::from_aval(&case["v"][1]);
        let before = v.to_aval();
        let ann = ann_of(case, v.len());
        let (mut o, wf) = with_protected(&v, || {
            let g = G { id, data: SerIter::new(Lying { it: v.iter(), ann }) };
            src_obs(&g, case)
        });
        o["src_freed"] = json!(wf);
        o["src_same"] = json!(v.to_aval() == before);
        o
    }
    fn arb(&self, g: &mut Gen) -> AVal { json!([u64::arb(g).to_aval(), Vec::<T>::arb(g).to_aval()]) }
    fn desc(&self) -> Value { <G<Vec<T>> as Model>::desc() }
}
