//! The bridge between the specification's universe (type descriptors and
//! abstract values, both JSON) and Rust types and values.
//!
//! `Model` is implemented once per type *constructor*; composition is done by
//! the trait system. `Proj` is implemented for every type that can occur in an
//! ε-copy result (`DeserType`): it projects the result to the abstract value it
//! describes and records every borrowed part relative to the input buffer.

use core::marker::PhantomData;
use core::num::*;
use core::ops::{Bound, ControlFlow, Range, RangeFrom, RangeFull, RangeInclusive, RangeTo, RangeToInclusive};
use serde_json::{json, Value};

pub type AVal = Value;

/// Deterministic generator for the randomized drivers.
pub struct Gen {
    pub rng: rand::rngs::StdRng,
    /// upper bound for sequence lengths at the current nesting level
    pub max_len: usize,
    pub depth: usize,
    /// "long" profile: outermost sequences get lengths around the buffer sizes a reader or writer may use
    pub long: bool,
}
impl Gen {
    pub fn new(seed: u64, max_len: usize) -> Self {
        use rand::SeedableRng;
        Gen { rng: rand::rngs::StdRng::seed_from_u64(seed), max_len, depth: 0, long: false }
    }
    pub fn below(&mut self, n: usize) -> usize {
        use rand::Rng;
        if n == 0 { 0 } else { self.rng.gen_range(0..n) }
    }
    pub fn byte(&mut self) -> u8 {
        use rand::Rng;
        // bias toward boundary bytes
        match self.below(6) { 0 => 0, 1 => 0xff, 2 => 0x80, _ => self.rng.gen() }
    }
    pub fn len(&mut self) -> usize {
        if self.long && self.depth == 0 {
            // around 2^k for the usual buffer sizes (and a little beyond, so that multi-byte items straddle them)
            const AROUND: [usize; 6] = [255, 1023, 1024, 2049, 4096, 8191];
            let base = AROUND[self.below(AROUND.len())];
            return base + self.below(5);
        }
        let m = (self.max_len >> (2 * self.depth)).max(2);
        match self.below(5) { 0 => 0, 1 => 1, _ => self.below(m + 1) }
    }
}

pub trait Model: Sized + 'static {
    fn desc() -> Value;
    fn from_aval(v: &AVal) -> Self;
    fn to_aval(&self) -> AVal;
    fn arb(g: &mut Gen) -> Self;
}

pub fn bytes_of(v: &AVal) -> Vec<u8> {
    v.as_array().expect("byte array").iter().map(|x| x.as_u64().expect("byte") as u8).collect()
}
pub fn aval_of(bytes: &[u8]) -> AVal {
    Value::Array(bytes.iter().map(|b| json!(*b)).collect())
}
fn arr(v: &AVal) -> &Vec<Value> {
    v.as_array().expect("array value")
}

/// Where borrowed parts of an ε-copy result point, relative to the input buffer.
pub struct Ctx {
    pub base: usize,
    pub len: usize,
    pub borrows: Vec<Value>,
}
impl Ctx {
    pub fn new(buf: &[u8]) -> Self {
        Ctx { base: buf.as_ptr() as usize, len: buf.len(), borrows: vec![] }
    }
    pub fn borrow(&mut self, ptr: usize, bytes: usize, esz: usize, al: usize) {
        let inb = ptr >= self.base && ptr + bytes <= self.base + self.len;
        let off = ptr as i128 - self.base as i128;
        self.borrows.push(json!({"off": off as i64, "len": bytes, "esz": esz, "al": al,
            "inb": inb, "mis": if al == 0 { 0 } else { ptr % al }}));
    }
}
pub trait Proj {
    fn proj(&self, c: &mut Ctx) -> AVal;
}

macro_rules! impl_int {
    ($($ty:ident),*) => {$(
        impl Model for $ty {
            fn desc() -> Value { json!({"k": "prim", "name": stringify!($ty)}) }
            fn from_aval(v: &AVal) -> Self { <$ty>::from_ne_bytes(bytes_of(v).try_into().expect("width")) }
            fn to_aval(&self) -> AVal { aval_of(&self.to_ne_bytes()) }
            fn arb(g: &mut Gen) -> Self {
                let mut b = [0u8; core::mem::size_of::<$ty>()];
                for x in b.iter_mut() { *x = g.byte(); }
                <$ty>::from_ne_bytes(b)
            }
        }
        impl Proj for $ty { fn proj(&self, _c: &mut Ctx) -> AVal { self.to_aval() } }
    )*};
}
impl_int!(u8, u16, u32, u64, u128, usize, i8, i16, i32, i64, i128, isize, f32, f64);

macro_rules! impl_nz {
    ($($ty:ident, $base:ident);*) => {$(
        impl Model for $ty {
            fn desc() -> Value { json!({"k": "prim", "name": stringify!($ty)}) }
            fn from_aval(v: &AVal) -> Self { <$ty>::new(<$base>::from_aval(v)).expect("nonzero") }
            fn to_aval(&self) -> AVal { self.get().to_aval() }
            fn arb(g: &mut Gen) -> Self {
                loop { if let Some(x) = <$ty>::new(<$base>::arb(g)) { return x; } }
            }
        }
        impl Proj for $ty { fn proj(&self, _c: &mut Ctx) -> AVal { self.to_aval() } }
    )*};
}
impl_nz!(NonZeroU8, u8; NonZeroU16, u16; NonZeroU32, u32; NonZeroU64, u64; NonZeroU128, u128; NonZeroUsize, usize;
         NonZeroI8, i8; NonZeroI16, i16; NonZeroI32, i32; NonZeroI64, i64; NonZeroI128, i128; NonZeroIsize, isize);

impl Model for bool {
    fn desc() -> Value { json!({"k": "prim", "name": "bool"}) }
    fn from_aval(v: &AVal) -> Self { bytes_of(v)[0] != 0 }
    fn to_aval(&self) -> AVal { aval_of(&[*self as u8]) }
    fn arb(g: &mut Gen) -> Self { g.below(2) == 1 }
}
impl Proj for bool { fn proj(&self, _c: &mut Ctx) -> AVal { self.to_aval() } }
impl Model for char {
    fn desc() -> Value { json!({"k": "prim", "name": "char"}) }
    fn from_aval(v: &AVal) -> Self { char::from_u32(u32::from_aval(v)).expect("char") }
    fn to_aval(&self) -> AVal { (*self as u32).to_aval() }
    fn arb(g: &mut Gen) -> Self {
        match g.below(6) {
            0 => '\0', 1 => 'a', 2 => '\u{e9}', 3 => '\u{1F525}', 4 => '\u{10FFFF}',
            _ => loop { if let Some(c) = char::from_u32(u32::arb(g) % 0x110000) { break c; } },
        }
    }
}
impl Proj for char { fn proj(&self, _c: &mut Ctx) -> AVal { self.to_aval() } }

impl Model for () {
    fn desc() -> Value { json!({"k": "unit"}) }
    fn from_aval(_v: &AVal) -> Self {}
    fn to_aval(&self) -> AVal { json!([]) }
    fn arb(_g: &mut Gen) -> Self {}
}
impl Proj for () { fn proj(&self, _c: &mut Ctx) -> AVal { json!([]) } }
impl Model for RangeFull {
    fn desc() -> Value { json!({"k": "rangefull"}) }
    fn from_aval(_v: &AVal) -> Self { .. }
    fn to_aval(&self) -> AVal { json!([]) }
    fn arb(_g: &mut Gen) -> Self { .. }
}
impl Proj for RangeFull { fn proj(&self, _c: &mut Ctx) -> AVal { json!([]) } }

/// Descriptor of the argument of a `PhantomData` (may be unsized or not serializable).
pub trait PhDesc { fn ph_desc() -> Value; }
impl<T: Model> PhDesc for T { fn ph_desc() -> Value { T::desc() } }
impl PhDesc for str { fn ph_desc() -> Value { json!({"k": "str"}) } }
impl PhDesc for (u8, String) {
    fn ph_desc() -> Value { json!({"k": "htuple", "elems": [u8::desc(), String::desc()]}) }
}
impl<T: ?Sized + PhDesc + 'static> Model for PhantomData<T> {
    fn desc() -> Value { json!({"k": "phantom", "arg": T::ph_desc()}) }
    fn from_aval(_v: &AVal) -> Self { PhantomData }
    fn to_aval(&self) -> AVal { json!([]) }
    fn arb(_g: &mut Gen) -> Self { PhantomData }
}
impl<T: ?Sized> Proj for PhantomData<T> { fn proj(&self, _c: &mut Ctx) -> AVal { json!([]) } }

fn arb_string(g: &mut Gen) -> String {
    let n = g.len();
    let mut s = String::new();
    for _ in 0..n { s.push(char::arb(g)); }
    // NUL and friends are fine in a String
    s
}
impl Model for String {
    fn desc() -> Value { json!({"k": "string"}) }
    fn from_aval(v: &AVal) -> Self { String::from_utf8(bytes_of(v)).expect("utf8") }
    fn to_aval(&self) -> AVal { aval_of(self.as_bytes()) }
    fn arb(g: &mut Gen) -> Self { arb_string(g) }
}
impl Model for Box<str> {
    fn desc() -> Value { json!({"k": "boxstr"}) }
    fn from_aval(v: &AVal) -> Self { String::from_aval(v).into_boxed_str() }
    fn to_aval(&self) -> AVal { aval_of(self.as_bytes()) }
    fn arb(g: &mut Gen) -> Self { arb_string(g).into_boxed_str() }
}
impl Proj for String { fn proj(&self, _c: &mut Ctx) -> AVal { self.to_aval() } }
impl Proj for Box<str> { fn proj(&self, _c: &mut Ctx) -> AVal { self.to_aval() } }
impl<'a> Proj for &'a str {
    fn proj(&self, c: &mut Ctx) -> AVal {
        c.borrow(self.as_ptr() as usize, self.len(), 1, 1);
        aval_of(self.as_bytes())
    }
}

fn arb_vec<T: Model>(g: &mut Gen) -> Vec<T> {
    let n = g.len();
    g.depth += 1;
    let v = (0..n).map(|_| T::arb(g)).collect();
    g.depth -= 1;
    v
}
impl<T: Model> Model for Vec<T> {
    fn desc() -> Value { json!({"k": "vec", "elem": T::desc()}) }
    fn from_aval(v: &AVal) -> Self { arr(v).iter().map(T::from_aval).collect() }
    fn to_aval(&self) -> AVal { Value::Array(self.iter().map(T::to_aval).collect()) }
    fn arb(g: &mut Gen) -> Self { arb_vec(g) }
}
impl<T: Model> Model for Box<[T]> {
    fn desc() -> Value { json!({"k": "boxslice", "elem": T::desc()}) }
    fn from_aval(v: &AVal) -> Self { arr(v).iter().map(T::from_aval).collect::<Vec<_>>().into_boxed_slice() }
    fn to_aval(&self) -> AVal { Value::Array(self.iter().map(T::to_aval).collect()) }
    fn arb(g: &mut Gen) -> Self { arb_vec(g).into_boxed_slice() }
}
impl<P: Proj> Proj for Vec<P> {
    fn proj(&self, c: &mut Ctx) -> AVal { Value::Array(self.iter().map(|x| x.proj(c)).collect()) }
}
impl<P: Proj> Proj for Box<[P]> {
    fn proj(&self, c: &mut Ctx) -> AVal { Value::Array(self.iter().map(|x| x.proj(c)).collect()) }
}
/// a borrowed slice of zero-copy elements
impl<'a, T: Model> Proj for &'a [T] {
    fn proj(&self, c: &mut Ctx) -> AVal {
        c.borrow(self.as_ptr() as usize, core::mem::size_of_val::<[T]>(self), core::mem::size_of::<T>(),
                 core::mem::align_of::<T>());
        Value::Array(self.iter().map(T::to_aval).collect())
    }
}
/// a reference to a zero-copy value (struct, enum, tuple, array)
impl<'a, T: Model> Proj for &'a T {
    fn proj(&self, c: &mut Ctx) -> AVal {
        if core::mem::size_of::<T>() != 0 {
            c.borrow(*self as *const T as usize, core::mem::size_of::<T>(), core::mem::size_of::<T>(),
                     core::mem::align_of::<T>());
        }
        (*self).to_aval()
    }
}
impl<T: Model, const N: usize> Model for [T; N] {
    fn desc() -> Value { json!({"k": "array", "n": N, "elem": T::desc()}) }
    fn from_aval(v: &AVal) -> Self { core::array::from_fn(|i| T::from_aval(&arr(v)[i])) }
    fn to_aval(&self) -> AVal { Value::Array(self.iter().map(T::to_aval).collect()) }
    fn arb(g: &mut Gen) -> Self { core::array::from_fn(|_| T::arb(g)) }
}
impl<P: Proj, const N: usize> Proj for [P; N] {
    fn proj(&self, c: &mut Ctx) -> AVal { Value::Array(self.iter().map(|x| x.proj(c)).collect()) }
}
macro_rules! impl_tuple {
    ($n:expr; $($i:tt),*) => {
        impl<T: Model> Model for ($(impl_tuple!(@t $i T),)*) {
            fn desc() -> Value { json!({"k": "tuple", "n": $n, "elem": T::desc()}) }
            fn from_aval(v: &AVal) -> Self { ($(T::from_aval(&arr(v)[$i]),)*) }
            fn to_aval(&self) -> AVal { json!([$(self.$i.to_aval()),*]) }
            fn arb(g: &mut Gen) -> Self { ($(impl_tuple!(@a $i T::arb(g)),)*) }
        }
        impl<T: Model> Proj for ($(impl_tuple!(@t $i T),)*) {
            fn proj(&self, _c: &mut Ctx) -> AVal { self.to_aval() }
        }
    };
    (@t $i:tt $t:ty) => { $t };
    (@a $i:tt $e:expr) => { $e };
}
impl_tuple!(1; 0);
impl_tuple!(2; 0, 1);
impl_tuple!(3; 0, 1, 2);
impl_tuple!(4; 0, 1, 2, 3);

impl<T: Model> Model for Option<T> {
    fn desc() -> Value { json!({"k": "option", "elem": T::desc()}) }
    fn from_aval(v: &AVal) -> Self {
        let a = arr(v);
        match a[0].as_u64().unwrap() { 0 => None, _ => Some(T::from_aval(&a[1])) }
    }
    fn to_aval(&self) -> AVal { match self { None => json!([0]), Some(x) => json!([1, x.to_aval()]) } }
    fn arb(g: &mut Gen) -> Self { if g.below(3) == 0 { None } else { Some(T::arb(g)) } }
}
impl<P: Proj> Proj for Option<P> {
    fn proj(&self, c: &mut Ctx) -> AVal { match self { None => json!([0]), Some(x) => json!([1, x.proj(c)]) } }
}
impl<T: Model> Model for Bound<T> {
    fn desc() -> Value { json!({"k": "bound", "elem": T::desc()}) }
    fn from_aval(v: &AVal) -> Self {
        let a = arr(v);
        match a[0].as_u64().unwrap() { 0 => Bound::Unbounded, 1 => Bound::Included(T::from_aval(&a[1])),
            _ => Bound::Excluded(T::from_aval(&a[1])) }
    }
    fn to_aval(&self) -> AVal {
        match self { Bound::Unbounded => json!([0]), Bound::Included(x) => json!([1, x.to_aval()]),
            Bound::Excluded(x) => json!([2, x.to_aval()]) }
    }
    fn arb(g: &mut Gen) -> Self {
        match g.below(3) { 0 => Bound::Unbounded, 1 => Bound::Included(T::arb(g)), _ => Bound::Excluded(T::arb(g)) }
    }
}
impl<P: Proj> Proj for Bound<P> {
    fn proj(&self, c: &mut Ctx) -> AVal {
        match self { Bound::Unbounded => json!([0]), Bound::Included(x) => json!([1, x.proj(c)]),
            Bound::Excluded(x) => json!([2, x.proj(c)]) }
    }
}
impl<B: Model, C: Model> Model for ControlFlow<B, C> {
    fn desc() -> Value { json!({"k": "cflow", "b": B::desc(), "c": C::desc()}) }
    fn from_aval(v: &AVal) -> Self {
        let a = arr(v);
        match a[0].as_u64().unwrap() { 0 => ControlFlow::Break(B::from_aval(&a[1])),
            _ => ControlFlow::Continue(C::from_aval(&a[1])) }
    }
    fn to_aval(&self) -> AVal {
        match self { ControlFlow::Break(x) => json!([0, x.to_aval()]), ControlFlow::Continue(x) => json!([1, x.to_aval()]) }
    }
    fn arb(g: &mut Gen) -> Self {
        if g.below(2) == 0 { ControlFlow::Break(B::arb(g)) } else { ControlFlow::Continue(C::arb(g)) }
    }
}
impl<P: Proj, Q: Proj> Proj for ControlFlow<P, Q> {
    fn proj(&self, c: &mut Ctx) -> AVal {
        match self { ControlFlow::Break(x) => json!([0, x.proj(c)]), ControlFlow::Continue(x) => json!([1, x.proj(c)]) }
    }
}

macro_rules! impl_range1 {
    ($ty:ident, $rk:expr, $f:ident, $mk:expr) => {
        impl<T: Model> Model for $ty<T> {
            fn desc() -> Value { json!({"k": "range", "rk": $rk, "elem": T::desc()}) }
            fn from_aval(v: &AVal) -> Self { let x = T::from_aval(&arr(v)[0]); $mk(x) }
            fn to_aval(&self) -> AVal { json!([self.$f.to_aval()]) }
            fn arb(g: &mut Gen) -> Self { let x = T::arb(g); $mk(x) }
        }
        impl<P: Proj> Proj for $ty<P> { fn proj(&self, c: &mut Ctx) -> AVal { json!([self.$f.proj(c)]) } }
    };
}
impl_range1!(RangeFrom, "RangeFrom", start, |x| x..);
impl_range1!(RangeTo, "RangeTo", end, |x| ..x);
impl_range1!(RangeToInclusive, "RangeToInclusive", end, |x| ..=x);
impl<T: Model> Model for Range<T> {
    fn desc() -> Value { json!({"k": "range", "rk": "Range", "elem": T::desc()}) }
    fn from_aval(v: &AVal) -> Self { T::from_aval(&arr(v)[0])..T::from_aval(&arr(v)[1]) }
    fn to_aval(&self) -> AVal { json!([self.start.to_aval(), self.end.to_aval()]) }
    fn arb(g: &mut Gen) -> Self { T::arb(g)..T::arb(g) }
}
impl<P: Proj> Proj for Range<P> {
    fn proj(&self, c: &mut Ctx) -> AVal { let a = self.start.proj(c); let b = self.end.proj(c); json!([a, b]) }
}
impl<T: Model> Model for RangeInclusive<T> {
    fn desc() -> Value { json!({"k": "range", "rk": "RangeInclusive", "elem": T::desc()}) }
    fn from_aval(v: &AVal) -> Self { T::from_aval(&arr(v)[0])..=T::from_aval(&arr(v)[1]) }
    fn to_aval(&self) -> AVal { json!([self.start().to_aval(), self.end().to_aval()]) }
    fn arb(g: &mut Gen) -> Self { T::arb(g)..=T::arb(g) }
}
impl<P: Proj> Proj for RangeInclusive<P> {
    fn proj(&self, c: &mut Ctx) -> AVal { let a = self.start().proj(c); let b = self.end().proj(c); json!([a, b]) }
}
