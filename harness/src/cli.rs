//! The commands that work on a dispatch table of runners (shared by the core binary and the
//! binary of the generated grammar universe).
use crate::runner::*;
use serde_json::{json, Value};
use std::collections::HashMap;
use std::io::{BufRead, Write};

/// returns false if the command is not one of the table commands
pub fn run_table_cmd(t: &HashMap<&'static str, Box<dyn Runner>>, args: &[String], mut out: &mut impl Write) -> bool {
    match args.get(1).map(|s| s.as_str()) {
        // facts <universe.json>: real recipe facts of every compiled type, next to the
        // xxh3 words of the *specification's* preimages
        Some("facts") => {
            let uni: Value = serde_json::from_reader(std::fs::File::open(&args[2]).unwrap()).unwrap();
                        let mut res = serde_json::Map::new();
            for (key, pred) in uni["types"].as_object().unwrap() {
                let Some(r) = t.get(key.as_str()) else { continue };
                let mut f = r.facts();
                let sth = tokens_to_bytes(&pred["th"]);
                let sah = tokens_to_bytes(&pred["ah"]);
                f["spec_th_pre"] = json!(sth);
                f["spec_ah_pre"] = json!(sah);
                f["spec_th"] = json!(xxh3(&sth).to_ne_bytes().to_vec());
                f["spec_ah"] = json!(xxh3(&sah).to_ne_bytes().to_vec());
                res.insert(key.clone(), f);
            }
            serde_json::to_writer(&mut out, &Value::Object(res)).unwrap();
        }
        // replay <file>: one case per line, one observation per line
        Some("replay") => {
                        let f = std::io::BufReader::new(std::fs::File::open(&args[2]).unwrap());
            // a case can abort the process (allocation failure, double free): the driver restarts after it
            let from: usize = args.get(3).and_then(|s| s.parse().ok()).unwrap_or(0);
            // watchdog: a case that does not come back (a loop over 2^63 items ...) kills the process like any
            // other fatal case; the driver restarts after it
            static TICK: std::sync::atomic::AtomicU64 = std::sync::atomic::AtomicU64::new(0);
            let limit: u64 = std::env::var("VERIF_CASE_TIMEOUT").ok().and_then(|s| s.parse().ok()).unwrap_or(30);
            std::thread::spawn(move || {
                let mut last = (0u64, std::time::Instant::now());
                loop {
                    std::thread::sleep(std::time::Duration::from_millis(200));
                    let t = TICK.load(std::sync::atomic::Ordering::SeqCst);
                    if t != last.0 { last = (t, std::time::Instant::now()); }
                    else if t != 0 && last.1.elapsed().as_secs() >= limit {
                        eprintln!("CASE-TIMEOUT: the case did not return within {limit} s");
                        std::process::abort();
                    }
                }
            });
            for (i, line) in f.lines().enumerate() {
                let line = line.unwrap();
                if i < from || line.trim().is_empty() { continue; }
                TICK.fetch_add(1, std::sync::atomic::Ordering::SeqCst);
                // announce the case before running it, so that an abort can be attributed
                writeln!(out, "{}", json!({"start": i})).unwrap();
                out.flush().unwrap();
                let case: Value = serde_json::from_str(&line).unwrap();
                let key = case["key"].as_str().unwrap();
                let obs = match t.get(key) {
                    Some(r) => r.run(&case),
                    None => json!({"error": "no such type in the compiled universe"}),
                };
                writeln!(out, "{}", json!({"i": i, "key": key, "obs": obs})).unwrap();
                out.flush().unwrap();
            }
        }
        // record <seed> <runs> <maxlen> [key-regex-free prefix filter]: recorded executions on random values
        Some("record") => {
            let seed: u64 = args[2].parse().unwrap();
            let runs: usize = args[3].parse().unwrap();
            let maxlen: usize = args[4].parse().unwrap();
            let mut ks: Vec<&str> = t.keys().cloned().collect();
            ks.sort();
            let mut g = crate::model::Gen::new(seed, maxlen);
            // `long`: types whose outermost (or first ε-copied) part is a sequence, with lengths around buffer sizes
            if args.get(5).map(|s| s.as_str()) == Some("long") {
                g.long = true;
                ks.retain(|k| ["String", "Box<str>", "Vec<u8>", "Vec<u16>", "Vec<u64>", "Vec<char>", "Vec<bool>", "Box<[u8]>", "Box<[u32]>",
                               "Vec<ZPad>", "G<String,>", "G<Vec<u8>,>", "G<Vec<u64>,>", "Option<String>", "Option<Vec<u32>>",
                               "G3<String,u8,Vec<u32>,>", "G2<u8,>", "G2<u64,>", "Bound<String>"].contains(k));
            }
            for _ in 0..runs {
                let k = ks[g.below(ks.len())];
                let mut ev = vec![];
                t[k].trace(&mut g, &mut ev);
                for e in ev { writeln!(out, "{}", e).unwrap(); }
            }
        }
        Some("keys") => {
            let mut ks: Vec<&str> = t.keys().cloned().collect();
            ks.sort();
            for k in ks { writeln!(out, "{k}").unwrap(); }
        }
        _ => return false,
    }
    true
}
