//! Harness-owned sinks and readers with fault schedules.

use epserde::deser::{self, ReadNoStd};
use epserde::ser::{self, WriteNoStd};
use std::io;

/// A sink that implements `WriteNoStd` directly: it sees every `write_all` call
/// (also empty ones) and `flush`. Accepts bytes until `fail_at`, then fails.
#[derive(Default)]
pub struct DirectSink {
    pub out: Vec<u8>,
    /// (offset, len) of every write_all call
    pub calls: Vec<(usize, usize)>,
    pub fail_at: Option<usize>,
    /// reject the n-th call (0-based), after accepting `partial` bytes of it
    pub reject_call: Option<usize>,
    pub partial: usize,
    pub fail_flush: bool,
    pub flushes: usize,
    pub failed: bool,
}
impl WriteNoStd for DirectSink {
    fn write_all(&mut self, buf: &[u8]) -> ser::Result<()> {
        let idx = self.calls.len();
        self.calls.push((self.out.len(), buf.len()));
        if self.reject_call == Some(idx) {
            let take = self.partial.min(buf.len());
            self.out.extend_from_slice(&buf[..take]);
            self.failed = true;
            return Err(ser::Error::WriteError);
        }
        if let Some(k) = self.fail_at {
            if self.out.len() + buf.len() > k {
                let take = k.saturating_sub(self.out.len());
                self.out.extend_from_slice(&buf[..take]);
                self.failed = true;
                return Err(ser::Error::WriteError);
            }
        }
        self.out.extend_from_slice(buf);
        Ok(())
    }
    fn flush(&mut self) -> ser::Result<()> {
        self.flushes += 1;
        if self.fail_flush { self.failed = true; Err(ser::Error::WriteError) } else { Ok(()) }
    }
}

/// A `std::io::Write` sink: `write_all` is std's loop over `write`. The schedule
/// says how many bytes each `write` call takes (cycled), which calls are
/// interrupted, and at which byte the sink fails or returns Ok(0).
#[derive(Default)]
pub struct StdSink {
    pub out: Vec<u8>,
    /// (offered, result) with result >= 0 taken, -1 interrupted, -2 error
    pub calls: Vec<(usize, i64)>,
    pub chunks: Vec<usize>,
    pub intr_every: usize,
    pub fail_at: Option<usize>,
    pub zero_at: Option<usize>,
    pub fail_flush: bool,
    pub flushes: usize,
    n: usize,
}
impl io::Write for StdSink {
    fn write(&mut self, buf: &[u8]) -> io::Result<usize> {
        self.n += 1;
        if self.intr_every > 0 && self.n % self.intr_every == 0 {
            self.calls.push((buf.len(), -1));
            return Err(io::Error::new(io::ErrorKind::Interrupted, "intr"));
        }
        let mut take = buf.len();
        if let Some(k) = self.zero_at {
            if self.out.len() >= k {
                self.calls.push((buf.len(), 0));
                return Ok(0);
            }
            take = take.min(k - self.out.len());
        }
        if !self.chunks.is_empty() {
            take = take.min(self.chunks[self.calls.len() % self.chunks.len()].max(1));
        }
        if let Some(k) = self.fail_at {
            if self.out.len() >= k {
                self.calls.push((buf.len(), -2));
                return Err(io::Error::new(io::ErrorKind::Other, "sink failure"));
            }
            take = take.min(k - self.out.len());
        }
        self.out.extend_from_slice(&buf[..take]);
        self.calls.push((buf.len(), take as i64));
        Ok(take)
    }
    fn flush(&mut self) -> io::Result<()> {
        self.flushes += 1;
        if self.fail_flush { Err(io::Error::new(io::ErrorKind::Other, "flush failure")) } else { Ok(()) }
    }
}

/// A `std::io::Read` reader with a fragmentation / fault schedule.
#[derive(Default)]
pub struct StdReader {
    pub data: Vec<u8>,
    pub pos: usize,
    /// (wanted, result): result >= 0 bytes returned, -1 interrupted, -2 error
    pub calls: Vec<(usize, i64)>,
    pub chunks: Vec<usize>,
    pub intr_every: usize,
    pub fail_at: Option<usize>,
    n: usize,
}
impl StdReader {
    pub fn new(data: Vec<u8>) -> Self { StdReader { data, ..Default::default() } }
}
impl io::Read for StdReader {
    fn read(&mut self, buf: &mut [u8]) -> io::Result<usize> {
        self.n += 1;
        if self.intr_every > 0 && self.n % self.intr_every == 0 {
            self.calls.push((buf.len(), -1));
            return Err(io::Error::new(io::ErrorKind::Interrupted, "intr"));
        }
        let mut take = buf.len().min(self.data.len() - self.pos);
        if !self.chunks.is_empty() {
            take = take.min(self.chunks[self.calls.len() % self.chunks.len()].max(1));
        }
        if let Some(k) = self.fail_at {
            if self.pos >= k && !buf.is_empty() {
                self.calls.push((buf.len(), -2));
                return Err(io::Error::new(io::ErrorKind::Other, "reader failure"));
            }
            take = take.min(k - self.pos);
        }
        buf[..take].copy_from_slice(&self.data[self.pos..self.pos + take]);
        self.pos += take;
        self.calls.push((buf.len(), take as i64));
        Ok(take)
    }
}

/// A reader implementing `ReadNoStd` directly: sees each `read_exact(len)` call.
#[derive(Default)]
pub struct DirectReader {
    pub data: Vec<u8>,
    pub pos: usize,
    pub calls: Vec<(usize, usize)>,
    /// fail the read_exact call that would cross this byte
    pub fail_at: Option<usize>,
}
impl ReadNoStd for DirectReader {
    fn read_exact(&mut self, buf: &mut [u8]) -> deser::Result<()> {
        self.calls.push((self.pos, buf.len()));
        if let Some(k) = self.fail_at {
            if self.pos + buf.len() > k {
                self.pos = k.max(self.pos);
                return Err(deser::Error::ReadError);
            }
        }
        if buf.len() > self.data.len() - self.pos {
            self.pos = self.data.len();
            return Err(deser::Error::ReadError);
        }
        buf.copy_from_slice(&self.data[self.pos..self.pos + buf.len()]);
        self.pos += buf.len();
        Ok(())
    }
}
