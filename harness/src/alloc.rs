//! Tracking global allocator: per-thread allocation volume, global live bytes,
//! and a registry of "protected" blocks (memory the harness lent to the library
//! as borrowed source data: a `dealloc` of such a block is recorded and *not*
//! forwarded, so a wrongful free is observed instead of corrupting the heap).

use std::alloc::{GlobalAlloc, Layout, System};
use std::cell::Cell;
use std::sync::atomic::{AtomicBool, AtomicI64, AtomicU64, AtomicUsize, Ordering::SeqCst};

pub struct Tracking;

/// fill every fresh (non-zeroed) allocation with 0xA5, so that "the library zeroed this" is observable
/// whatever the system allocator hands back
pub static POISON: AtomicBool = AtomicBool::new(false);
/// report allocations aligned like `MemoryAlignment` (64) and more as marker system calls visible to strace
pub static MARKS: AtomicBool = AtomicBool::new(false);

struct Buf { b: [u8; 120], n: usize }
impl core::fmt::Write for Buf {
    fn write_str(&mut self, s: &str) -> core::fmt::Result {
        for c in s.bytes() { if self.n < 120 { self.b[self.n] = c; self.n += 1; } }
        Ok(())
    }
}
/// A marker for `strace`: statx() on a path that does not exist. No heap allocation (stack buffer, short
/// path), so it can be called from inside the allocator.
pub fn mark(args: core::fmt::Arguments) {
    if !MARKS.load(SeqCst) { return; }
    use core::fmt::Write;
    let mut b = Buf { b: [0; 120], n: 0 };
    let _ = b.write_str("/verif-mark/");
    let _ = b.write_fmt(args);
    if let Ok(s) = core::str::from_utf8(&b.b[..b.n]) { let _ = std::fs::metadata(s); }
}

thread_local! {
    static ON: Cell<bool> = const { Cell::new(false) };
    static BYTES: Cell<u64> = const { Cell::new(0) };
    static CALLS: Cell<u64> = const { Cell::new(0) };
    static FREES: Cell<u64> = const { Cell::new(0) };
}
pub static LIVE: AtomicI64 = AtomicI64::new(0);
pub static TOTAL_ALLOCS: AtomicU64 = AtomicU64::new(0);
const SLOTS: usize = 64;
static PROTECTED: [AtomicUsize; SLOTS] = [const { AtomicUsize::new(0) }; SLOTS];
static NPROT: AtomicUsize = AtomicUsize::new(0);
pub static WRONG_FREES: AtomicU64 = AtomicU64::new(0);

unsafe impl GlobalAlloc for Tracking {
    unsafe fn alloc(&self, l: Layout) -> *mut u8 {
        let p = System.alloc(l);
        if !p.is_null() {
            if POISON.load(SeqCst) { core::ptr::write_bytes(p, 0xA5, l.size()); }
            if l.align() >= 64 { mark(format_args!("halloc:{}:{}:{}", p as usize, l.size(), l.align())); }
            LIVE.fetch_add(l.size() as i64, SeqCst);
            TOTAL_ALLOCS.fetch_add(1, SeqCst);
            let _ = ON.try_with(|on| {
                if on.get() {
                    let _ = BYTES.try_with(|b| b.set(b.get() + l.size() as u64));
                    let _ = CALLS.try_with(|c| c.set(c.get() + 1));
                }
            });
        }
        p
    }
    unsafe fn dealloc(&self, p: *mut u8, l: Layout) {
        if NPROT.load(SeqCst) > 0 {
            for s in PROTECTED.iter() {
                if s.load(SeqCst) == p as usize {
                    WRONG_FREES.fetch_add(1, SeqCst);
                    return; // not forwarded: the rightful owner frees it later
                }
            }
        }
        if l.align() >= 64 { mark(format_args!("hfree:{}:{}:{}", p as usize, l.size(), l.align())); }
        LIVE.fetch_sub(l.size() as i64, SeqCst);
        let _ = ON.try_with(|on| {
            if on.get() {
                let _ = FREES.try_with(|c| c.set(c.get() + 1));
            }
        });
        System.dealloc(p, l)
    }
    unsafe fn realloc(&self, p: *mut u8, l: Layout, new: usize) -> *mut u8 {
        let q = System.realloc(p, l, new);
        if !q.is_null() {
            LIVE.fetch_add(new as i64 - l.size() as i64, SeqCst);
            let _ = ON.try_with(|on| {
                if on.get() && new > l.size() {
                    let _ = BYTES.try_with(|b| b.set(b.get() + (new - l.size()) as u64));
                    let _ = CALLS.try_with(|c| c.set(c.get() + 1));
                }
            });
        }
        q
    }
}

/// Count what `f` allocates on this thread: (bytes requested, allocation calls).
pub fn measure<R>(f: impl FnOnce() -> R) -> (R, u64, u64) {
    BYTES.with(|b| b.set(0));
    CALLS.with(|c| c.set(0));
    ON.with(|o| o.set(true));
    let r = f();
    ON.with(|o| o.set(false));
    (r, BYTES.with(|b| b.get()), CALLS.with(|c| c.get()))
}
pub fn live() -> i64 { LIVE.load(SeqCst) }

pub fn protect(p: usize) {
    if p == 0 { return; }
    for s in PROTECTED.iter() {
        if s.compare_exchange(0, p, SeqCst, SeqCst).is_ok() {
            NPROT.fetch_add(1, SeqCst);
            return;
        }
    }
}
pub fn unprotect_all() {
    for s in PROTECTED.iter() { s.store(0, SeqCst); }
    NPROT.store(0, SeqCst);
}
pub fn take_wrong_frees() -> u64 { WRONG_FREES.swap(0, SeqCst) }
