pub mod alloc;
pub mod cli;
pub mod model;
pub mod runner;
pub mod sinks;
pub mod universe;
