use harness::runner::*;
use serde_json::{json, Value};
use std::collections::HashMap;
use std::io::{BufRead, BufWriter, Write};

#[global_allocator]
static GLOBAL: harness::alloc::Tracking = harness::alloc::Tracking;

fn table() -> HashMap<&'static str, Box<dyn Runner>> {
    let mut t: HashMap<&'static str, Box<dyn Runner>> = HashMap::new();
    t.extend(u0::table()); t.extend(u1::table()); t.extend(u2::table()); t.extend(u3::table());
    t.extend(u4::table()); t.extend(u5::table()); t.extend(u6::table()); t.extend(u7::table());
    t.extend(u8::table()); t.extend(u9::table()); t.extend(u10::table()); t.extend(u11::table());
    t
}

fn main() {
    std::panic::set_hook(Box::new(|_| {}));
    let args: Vec<String> = std::env::args().collect();
    let out = std::io::stdout();
    let mut out = BufWriter::new(out.lock());
    let cmd = args.get(1).map(|s| s.as_str());
    if matches!(cmd, Some("facts") | Some("replay") | Some("keys") | Some("record")) {
        harness::cli::run_table_cmd(&table(), &args, &mut out);
        return;
    }
    match cmd {
        // store() onto sinks that cannot take the data
        Some("filesinks") => {
            use epserde::prelude::Serialize;
            let mut res = vec![];
            let small: Vec<u64> = vec![1, 2, 3];
            let large: Vec<u64> = (0..100_000).collect();
            let dir = std::env::temp_dir();
            let cases: Vec<(&str, &Vec<u64>, std::path::PathBuf)> = vec![
                ("devfull-small", &small, "/dev/full".into()),
                ("devfull-large", &large, "/dev/full".into()),
                ("directory", &small, dir.clone()),
                ("missing-dir", &small, "/nonexistent-dir-verif/x.bin".into()),
            ];
            for (name, v, path) in cases {
                let r = std::panic::catch_unwind(|| v.store(&path));
                let o = match r {
                    Ok(Ok(())) => json!({"case": name, "st": "ok"}),
                    Ok(Err(e)) => { let mut o = ser_err(&e); o["case"] = json!(name); o }
                    Err(p) => json!({"case": name, "st": "panic", "msg": panic_msg(p)}),
                };
                res.push(o);
            }
            writeln!(out, "{}", Value::Array(res)).unwrap();
        }
        // cursor replay <file> | cursor record <seed> <histories> <ops> | cursor extremes
        Some("cursor") => {
            match args[2].as_str() {
                "replay" => {
                    let f = std::io::BufReader::new(std::fs::File::open(&args[3]).unwrap());
                    for line in f.lines() {
                        let line = line.unwrap();
                        if line.trim().is_empty() { continue; }
                        let h: Value = serde_json::from_str(&line).unwrap();
                        writeln!(out, "{}", engines::cursor::replay(&h)).unwrap();
                    }
                }
                "record" => {
                    let seed: u64 = args[3].parse().unwrap();
                    let nh: usize = args[4].parse().unwrap();
                    let nops: usize = args[5].parse().unwrap();
                    for i in 0..nh {
                        let mut ev = vec![];
                        engines::cursor::record(seed.wrapping_mul(1000).wrapping_add(i as u64), nops, i % 2 == 1, &mut ev);
                        for e in ev { writeln!(out, "{}", e).unwrap(); }
                    }
                }
                _ => { writeln!(out, "{}", engines::cursor::extremes()).unwrap(); }
            }
        }
        // memcase <cases.ndjson> [from]: loaders and MemCase lifecycle, one observation per line
        Some("memcase") => {
            let _ = engines::memcase::LIVE_FN.set(harness::alloc::live);
            let _ = engines::memcase::MARK_FN.set(harness::alloc::mark);
            // fresh heap memory is never zero by luck; with VERIF_MARKS the run is meant to be straced
            harness::alloc::POISON.store(true, std::sync::atomic::Ordering::SeqCst);
            if std::env::var_os("VERIF_MARKS").is_some() { harness::alloc::MARKS.store(true, std::sync::atomic::Ordering::SeqCst); }
            let dir = std::env::temp_dir().join(format!("verif_memcase_{}", std::process::id()));
            std::fs::create_dir_all(&dir).unwrap();
            let f = std::io::BufReader::new(std::fs::File::open(&args[2]).unwrap());
            let from: usize = args.get(3).and_then(|s| s.parse().ok()).unwrap_or(0);
            for (i, line) in f.lines().enumerate() {
                let line = line.unwrap();
                if i < from || line.trim().is_empty() { continue; }
                writeln!(out, "{}", json!({"start": i})).unwrap();
                out.flush().unwrap();
                let case: Value = serde_json::from_str(&line).unwrap();
                let obs = engines::memcase::run_case(&case, &dir);
                writeln!(out, "{}", json!({"i": i, "obs": obs})).unwrap();
                out.flush().unwrap();
            }
            let _ = std::fs::remove_dir_all(&dir);
        }
        _ => {
            eprintln!("usage: harness facts <universe.json> | replay <cases.ndjson> | keys");
            std::process::exit(2);
        }
    }
}
