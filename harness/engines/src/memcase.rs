//! The file loaders and the MemCase lifecycle, observed from outside:
//! live heap bytes (tracking allocator of the binary), memory mappings
//! (/proc/self/maps), the backing region (hook `verif_backend_range`),
//! borrowed parts of the loaded structure, digests across moves and threads,
//! and the order of drops (a canary structure whose Drop reads its borrow).

use epserde::prelude::*;
use serde_json::{json, Value};
use std::panic::{catch_unwind, AssertUnwindSafe};
use std::sync::atomic::{AtomicI64, AtomicU64, Ordering::SeqCst};
use std::sync::Arc;

/// set by the binary: reads the global live-bytes counter of the tracking allocator
pub static LIVE_FN: std::sync::OnceLock<fn() -> i64> = std::sync::OnceLock::new();
fn live() -> i64 { LIVE_FN.get().map(|f| f()).unwrap_or(0) }
/// set by the binary: emits a marker system call (visible to strace) when marks are switched on
pub static MARK_FN: std::sync::OnceLock<fn(core::fmt::Arguments)> = std::sync::OnceLock::new();
fn mark(a: core::fmt::Arguments) { if let Some(f) = MARK_FN.get() { f(a) } }

fn maps() -> Vec<(usize, usize)> {
    let s = std::fs::read_to_string("/proc/self/maps").unwrap_or_default();
    s.lines().filter_map(|l| {
        let r = l.split_whitespace().next()?;
        let (a, b) = r.split_once('-')?;
        Some((usize::from_str_radix(a, 16).ok()?, usize::from_str_radix(b, 16).ok()?))
    }).collect()
}
fn mapped(addr: usize) -> bool { maps().iter().any(|(a, b)| *a <= addr && addr < *b) }
fn nmaps() -> usize { maps().len() }

pub trait Peek { fn peek(&self) -> u64; }
impl Peek for Vec<u64> { fn peek(&self) -> u64 { self.iter().fold(17u64, |a, x| a.wrapping_mul(31).wrapping_add(*x)) } }
impl Peek for &[u64] { fn peek(&self) -> u64 { self.iter().fold(17u64, |a, x| a.wrapping_mul(31).wrapping_add(*x)) } }

pub static CANARY_SEEN: AtomicU64 = AtomicU64::new(0);
pub static CANARY_DROPS: AtomicI64 = AtomicI64::new(0);

/// A structure whose Drop reads the data it borrows: if the backing region were released
/// first, the digest would be wrong (heap: poisoned) or the process would die (mapping).
#[derive(Epserde, Debug)]
pub struct Canary<A: Peek> { pub id: u64, pub data: A }
impl<A: Peek> Drop for Canary<A> {
    fn drop(&mut self) {
        mark(format_args!("sdrop"));
        CANARY_SEEN.store(self.data.peek(), SeqCst);
        CANARY_DROPS.fetch_add(1, SeqCst);
    }
}

#[derive(Epserde, Debug, Clone)]
pub struct Doc<A, B> { pub id: u64, pub data: A, pub name: B, pub tail: Vec<u16> }

#[derive(Epserde, Debug, Clone, Copy)]
#[repr(C)]
#[repr(align(128))]
#[zero_copy]
pub struct Big128 { pub x: u64 }

pub mod v2 {
    use epserde::prelude::*;
    /// same name, same fields, other layout: only the alignment hash differs from `Lay`
    #[derive(Epserde, Debug, Clone, Copy)]
    #[repr(C)]
    #[repr(align(16))]
    #[zero_copy]
    pub struct Lay { pub a: u32, pub b: u16 }
}
#[derive(Epserde, Debug, Clone, Copy)]
#[repr(C)]
#[zero_copy]
pub struct Lay { pub a: u32, pub b: u16 }

fn digest_bytes(a: u64, b: &[u8]) -> u64 { b.iter().fold(a, |a, x| a.wrapping_mul(1099511628211).wrapping_add(*x as u64)) }

/// what a loaded structure exposes: a digest of everything reachable, and its borrowed ranges
pub trait Loaded {
    fn digest(&self) -> u64;
    fn borrows(&self) -> Vec<(usize, usize)>;
}
impl Loaded for &[u64] {
    fn digest(&self) -> u64 { self.iter().fold(3, |a, x| a.wrapping_mul(31).wrapping_add(*x)) }
    fn borrows(&self) -> Vec<(usize, usize)> { vec![(self.as_ptr() as usize, self.len() * 8)] }
}
impl Loaded for &[u8] {
    fn digest(&self) -> u64 { digest_bytes(5, self) }
    fn borrows(&self) -> Vec<(usize, usize)> { vec![(self.as_ptr() as usize, self.len())] }
}
impl Loaded for Vec<u64> {
    fn digest(&self) -> u64 { self.iter().fold(3, |a, x| a.wrapping_mul(31).wrapping_add(*x)) }
    fn borrows(&self) -> Vec<(usize, usize)> { vec![] }
}
impl Loaded for Vec<u8> {
    fn digest(&self) -> u64 { digest_bytes(5, self) }
    fn borrows(&self) -> Vec<(usize, usize)> { vec![] }
}
impl Loaded for Vec<String> {
    fn digest(&self) -> u64 { self.iter().fold(11, |a, x| a.wrapping_mul(1000003) ^ digest_bytes(7, x.as_bytes())) }
    fn borrows(&self) -> Vec<(usize, usize)> { vec![] }
}
impl<'a> Loaded for Vec<&'a str> {
    fn digest(&self) -> u64 { self.iter().fold(11, |a, x| a.wrapping_mul(1000003) ^ digest_bytes(7, x.as_bytes())) }
    fn borrows(&self) -> Vec<(usize, usize)> { self.iter().map(|x| (x.as_ptr() as usize, x.len())).collect() }
}
impl Loaded for &str {
    fn digest(&self) -> u64 { digest_bytes(7, self.as_bytes()) }
    fn borrows(&self) -> Vec<(usize, usize)> { vec![(self.as_ptr() as usize, self.len())] }
}
impl Loaded for String {
    fn digest(&self) -> u64 { digest_bytes(7, self.as_bytes()) }
    fn borrows(&self) -> Vec<(usize, usize)> { vec![] }
}
impl<A: Loaded, B: Loaded> Loaded for Doc<A, B> {
    fn digest(&self) -> u64 {
        self.id ^ self.data.digest().rotate_left(7) ^ self.name.digest().rotate_left(13)
            ^ self.tail.iter().fold(0u64, |a, x| a.wrapping_mul(31).wrapping_add(*x as u64))
    }
    fn borrows(&self) -> Vec<(usize, usize)> { let mut v = self.data.borrows(); v.extend(self.name.borrows()); v }
}
impl<A: Peek + Loaded> Loaded for Canary<A> {
    fn digest(&self) -> u64 { self.id ^ self.data.digest() }
    fn borrows(&self) -> Vec<(usize, usize)> { self.data.borrows() }
}
impl Loaded for &Lay {
    fn digest(&self) -> u64 { self.a as u64 * 65537 + self.b as u64 }
    fn borrows(&self) -> Vec<(usize, usize)> { vec![(*self as *const Lay as usize, core::mem::size_of::<Lay>())] }
}
impl Loaded for Lay {
    fn digest(&self) -> u64 { self.a as u64 * 65537 + self.b as u64 }
    fn borrows(&self) -> Vec<(usize, usize)> { vec![] }
}

fn err_name(e: &anyhow::Error) -> &'static str {
    use epserde::deser::Error::*;
    match e.downcast_ref::<epserde::deser::Error>() {
        Some(FileOpenError(_)) => "FileOpenError",
        Some(ReadError) => "ReadError",
        Some(EndiannessError) => "EndiannessError",
        Some(AlignmentError) => "AlignmentError",
        Some(MajorVersionMismatch(_)) => "MajorVersionMismatch",
        Some(MinorVersionMismatch(_)) => "MinorVersionMismatch",
        Some(UsizeSizeMismatch(_)) => "UsizeSizeMismatch",
        Some(MagicCookieError(_)) => "MagicCookieError",
        Some(InvalidTag(_)) => "InvalidTag",
        Some(WrongTypeHash { .. }) => "WrongTypeHash",
        Some(WrongAlignHash { .. }) => "WrongAlignHash",
        None => "Io",
    }
}

fn flags_of(bits: u64) -> Flags { Flags::from_bits_truncate(bits as u32) }

/// Everything observed about one case, in a plain (non-allocating) record, so that taking the
/// observations does not disturb the heap measurements.
#[derive(Clone, Copy, Default)]
pub struct Obs {
    pub res: &'static str,
    pub has_region: bool, pub cap: usize, pub res64: usize, pub res4096: usize, pub tail_zero: bool,
    pub digest_ok: bool, pub digests: [u64; 12], pub ndig: usize, pub all_inside: bool,
    pub region_mapped_after_drop: bool, pub consumed: bool,
    pub heap1: i64, pub maps1: i64, pub heap2: i64, pub maps2: i64,
}
impl Obs {
    fn dig(&mut self, d: u64) { if self.ndig < 12 { self.digests[self.ndig] = d; self.ndig += 1; } }
}

/// Post-load operations on the owner: the digest must not change, the borrows must stay inside the region.
fn exercise<S: Loaded + Send + Sync + 'static>(mc: MemCase<S>, ops: &[&str], o: &mut Obs) -> Option<MemCase<S>> {
    let range = mc.verif_backend_range();
    o.dig(mc.digest());
    let inside = |mc: &MemCase<S>| -> bool {
        match range {
            Some((p, n)) => mc.borrows().iter().all(|(a, l)| *l == 0 || (*a >= p as usize && *a + *l <= p as usize + n)),
            None => mc.borrows().is_empty(),
        }
    };
    o.all_inside = inside(&mc);
    let mut cur = Some(mc);
    for op in ops {
        let mc = cur.take().unwrap();
        match *op {
            "move" => {
                mark(format_args!("op:move"));
                let mut v = vec![mc];
                let mc = v.pop().unwrap();
                let mc = std::hint::black_box(mc);
                o.dig(mc.digest());
                o.all_inside &= inside(&mc);
                cur = Some(mc);
            }
            "box" => {
                mark(format_args!("op:box"));
                let b = Box::new(mc);
                o.dig(b.digest());
                o.all_inside &= inside(&b);
                mark(format_args!("op:unbox"));
                cur = Some(*b);
            }
            "send" => {
                let h = std::thread::spawn(move || { mark(format_args!("op:send")); let d = mc.digest(); (mc, d) });
                let (mc, d) = h.join().unwrap();
                mark(format_args!("op:back"));
                o.dig(d);
                o.all_inside &= inside(&mc);
                cur = Some(mc);
            }
            "arc2" => {
                mark(format_args!("op:arc"));
                let a = Arc::new(mc);
                let hs: Vec<_> = (0..2).map(|i| {
                    let a = a.clone();
                    std::thread::spawn(move || { for _ in 0..i { std::thread::yield_now(); } mark(format_args!("op:enter")); let mut d = 0; for _ in 0..50 { d = a.digest(); std::thread::yield_now(); } mark(format_args!("op:leave")); drop(a); d })
                }).collect();
                let here = a.digest();
                for h in hs { o.dig(h.join().unwrap()); }
                o.dig(here);
                cur = Arc::try_unwrap(a).ok();
                if cur.is_none() { return None; }
                mark(format_args!("op:unarc"));
            }
            "dropthread" => {
                let h = std::thread::spawn(move || { mark(format_args!("op:send")); drop(mc); });
                h.join().unwrap();
                o.consumed = true;
                return None;
            }
            _ => { cur = Some(mc); }
        }
    }
    cur
}

fn observe_case<S: Loaded + Send + Sync + 'static>(
    res: anyhow::Result<MemCase<S>>, file_len: usize, ops: &[&str], expect_digest: u64, o: &mut Obs,
) {
    mark(format_args!("loaded:{}", match &res { Ok(_) => "ok", Err(e) => err_name(e) }));
    o.heap1 = live();
    o.maps1 = nmaps() as i64;
    match res {
        Ok(mc) => {
            o.res = "ok";
            let range = mc.verif_backend_range();
            let mut region_addr = 0usize;
            if let Some((p, n)) = range {
                region_addr = p as usize;
                let bytes = unsafe { core::slice::from_raw_parts(p, n) };
                o.has_region = true;
                o.cap = n;
                o.res64 = p as usize % 64;
                o.res4096 = p as usize % 4096;
                o.tail_zero = bytes[file_len.min(n)..].iter().all(|b| *b == 0);
            }
            o.digest_ok = mc.digest() == expect_digest;
            CANARY_SEEN.store(0, SeqCst);
            let rest = exercise(mc, ops, o);
            drop(rest);
            mark(format_args!("dropped"));
            o.region_mapped_after_drop = region_addr != 0 && mapped(region_addr);
        }
        Err(e) => { o.res = err_name(&e); drop(e); mark(format_args!("dropped")); }
    }
    o.heap2 = live();
    o.maps2 = nmaps() as i64;
}

fn observe_full<T: Loaded>(res: anyhow::Result<T>, expect_digest: u64, o: &mut Obs) {
    mark(format_args!("loaded:{}", match &res { Ok(_) => "ok", Err(e) => err_name(e) }));
    o.heap1 = live();
    o.maps1 = nmaps() as i64;
    match res {
        Ok(v) => { o.res = "ok"; o.digest_ok = v.digest() == expect_digest; o.all_inside = true; drop(v); }
        Err(e) => { o.res = err_name(&e); }
    }
    mark(format_args!("dropped"));
    o.heap2 = live();
    o.maps2 = nmaps() as i64;
}

/// Build the file for a case and return (path, file length, digest the loaded structure must have).
fn make_file(dir: &std::path::Path, ty: &str, n: usize, cause: &str, cut: i64, prior: &str) -> (std::path::PathBuf, usize, u64) {
    let path = dir.join(format!("case_{}_{}.bin", ty, std::process::id()));
    // what is at the path before store(): nothing, a shorter file, or a longer one (store must truncate)
    match prior {
        "shorter" => std::fs::write(&path, [0xABu8; 7]).unwrap(),
        "longer" => std::fs::write(&path, vec![0xABu8; 1 << 16]).unwrap(),
        _ => { let _ = std::fs::remove_file(&path); }
    }
    if cause == "isdir" {
        // the path is a directory: metadata() and File::open succeed, read() fails, mmap fails
        let _ = std::fs::remove_file(&path);
        std::fs::create_dir_all(&path).unwrap();
        let len = std::fs::metadata(&path).map(|m| m.len() as usize).unwrap_or(0);
        return (path, len, 0);
    }
    let v64: Vec<u64> = (0..n as u64).map(|i| i.wrapping_mul(0x9E3779B97F4A7C15) ^ 0xA5).collect();
    let v8: Vec<u8> = (0..n).map(|i| (i * 7 + 3) as u8).collect();
    let name: String = "héllo🔥".chars().cycle().take(n % 11).collect();
    let digest;
    let mut store_err = None;
    let other = cause == "wrongtype";
    mark(format_args!("store"));
    match ty {
        "vec64" => { digest = (&v64[..]).digest(); if other { store_err = v8.store(&path).err(); } else { store_err = v64.store(&path).err(); } }
        "vec8" => { digest = (&v8[..]).digest(); if other { store_err = v64.store(&path).err(); } else { store_err = v8.store(&path).err(); } }
        "string" => { let s: String = "ab".repeat(n); digest = s.as_str().digest(); if other { store_err = v8.store(&path).err(); } else { store_err = s.store(&path).err(); } }
        "doc" => {
            let d = Doc { id: 42, data: v64.clone(), name: name.clone(), tail: vec![1, 2, 3] };
            digest = d.digest();
            if other { store_err = v8.store(&path).err(); } else { store_err = d.store(&path).err(); }
        }
        "canary" => {
            let c = Canary { id: 9, data: v64.clone() };
            digest = c.digest();
            if other { store_err = v8.store(&path).err(); } else { store_err = c.store(&path).err(); }
            CANARY_DROPS.store(0, SeqCst);
        }
        "lay" => {
            let l = Lay { a: 0xABCD1234, b: 77 };
            digest = l.digest();
            if other { store_err = v8.store(&path).err(); }
            else if cause == "wrongalign" { store_err = v2::Lay { a: 0xABCD1234, b: 77 }.store(&path).err(); }
            else { store_err = l.store(&path).err(); }
        }
        // many small reads: a file of tens of kilobytes made of 13-byte strings (buffered readers refill many times)
        "strs" => {
            let v: Vec<String> = (0..n).map(|i| format!("{:013}", i * 7919)).collect();
            digest = v.digest();
            if other { store_err = v8.store(&path).err(); } else { store_err = v.store(&path).err(); }
        }
        "big128" => { digest = 0; store_err = Big128 { x: 5 }.store(&path).err(); }
        _ => panic!("type"),
    }
    if let Some(e) = store_err { panic!("store failed: {e:?}"); }
    let mut bytes = std::fs::read(&path).unwrap();
    mark(format_args!("stored:{}", bytes.len()));
    match cause {
        "corrupt" => { bytes[3] ^= 0x40; std::fs::write(&path, &bytes).unwrap(); }
        // cut >= 0: keep `cut` bytes; cut < 0: drop `-cut` bytes from the end (a cut inside the payload)
        "trunc" => {
            let keep = if cut >= 0 { (cut as usize).min(bytes.len()) } else { bytes.len().saturating_sub((-cut) as usize) };
            bytes.truncate(keep);
            std::fs::write(&path, &bytes).unwrap();
        }
        "empty" => { bytes.clear(); std::fs::write(&path, &bytes).unwrap(); }
        "missing" => { std::fs::remove_file(&path).unwrap(); }
        _ => {}
    }
    (path, bytes.len(), digest)
}

macro_rules! run_loader {
    ($T:ty, $loader:expr, $flags:expr, $path:expr) => {
        match $loader {
            "load_mem" => <$T>::load_mem($path),
            #[cfg(feature = "mmap")]
            "load_mmap" => <$T>::load_mmap($path, flags_of($flags)),
            #[cfg(feature = "mmap")]
            "mmap" => <$T>::mmap($path, flags_of($flags)),
            other => Err(anyhow::anyhow!("loader {other} not available in this feature set")),
        }
    };
}

/// MemCase::encase / From<S>: a structure built in memory with the `None` backend
fn run_encase(ty: &str, n: usize, ops: &[&str]) -> Value {
    let v64: Vec<u64> = (0..n as u64).map(|i| i.wrapping_mul(0x9E3779B97F4A7C15) ^ 0xA5).collect();
    let name: String = "héllo🔥".chars().cycle().take(n % 11).collect();
    CANARY_DROPS.store(0, SeqCst);
    let mut o = Obs::default();
    let heap0 = live();
    let maps0 = nmaps() as i64;
    mark(format_args!("load"));
    let r = catch_unwind(AssertUnwindSafe(|| {
        let o = &mut o;
        match ty {
            "vec64" => { let d = v64.digest(); let mc = MemCase::encase(v64.clone()); observe_case(Ok(mc), 0, ops, d, o) }
            "doc" => {
                let x = Doc { id: 42, data: v64.clone(), name: name.clone(), tail: vec![1u16, 2, 3] };
                let d = x.digest();
                let mc: MemCase<Doc<Vec<u64>, String>> = x.into();
                observe_case(Ok(mc), 0, ops, d, o)
            }
            _ => { let c = Canary { id: 9, data: v64.clone() }; let d = c.digest(); let mc = MemCase::encase(c); observe_case(Ok(mc), 0, ops, d, o) }
        }
    }));
    let did_panic = r.is_err();
    drop(r);
    if did_panic { mark(format_args!("loaded:panic")); mark(format_args!("dropped")); }
    let canary_drops = CANARY_DROPS.load(SeqCst);
    let canary_valid = CANARY_SEEN.load(SeqCst) == v64.peek();
    drop(v64);
    json!({
        "file_len": 0, "store_exact": true,
        "res": if did_panic { "panic" } else { o.res }, "msg": Value::Null,
        "region": if o.has_region { json!({"cap": o.cap, "res64": o.res64, "res4096": o.res4096, "tail_zero": o.tail_zero}) } else { Value::Null },
        "digest_ok": o.digest_ok, "digests": o.digests[..o.ndig].to_vec(),
        "digest_stable": o.digests[..o.ndig].iter().all(|d| *d == o.digests[0]),
        "all_inside": o.all_inside, "region_mapped_after_drop": o.region_mapped_after_drop,
        "heap_after_load": o.heap1 - heap0, "maps_after_load": o.maps1 - maps0,
        "heap_after_drop": o.heap2 - heap0, "maps_after_drop": o.maps2 - maps0,
        "canary_drops": canary_drops, "canary_saw_valid_data": canary_valid, "big_res128": 0,
    })
}

pub fn run_case(case: &Value, dir: &std::path::Path) -> Value {
    let loader = case["loader"].as_str().unwrap();
    let ty = case["ty"].as_str().unwrap();
    let n = case["n"].as_u64().unwrap_or(3) as usize;
    let cause = case["cause"].as_str().unwrap_or("valid");
    let cut = case["cut"].as_i64().unwrap_or(0);
    let prior = case["prior"].as_str().unwrap_or("absent");
    let flags = case["flags"].as_u64().unwrap_or(0);
    let ops_owned: Vec<String> = case["ops"].as_array().map(|a| a.iter().map(|x| x.as_str().unwrap().to_string()).collect()).unwrap_or_default();
    let ops: Vec<&str> = ops_owned.iter().map(|s| s.as_str()).collect();
    mark(format_args!("case:{}", case["i"].as_u64().unwrap_or(0)));
    if loader == "encase" {
        return run_encase(ty, n, &ops);
    }
    let (path, file_len, digest) = make_file(dir, ty, n, cause, cut, prior);
    let mut store_exact = true;
    if cause == "valid" {
        // store() must have written exactly the serialized bytes
        let on_disk = std::fs::read(&path).unwrap();
        let mut mem: Vec<u8> = vec![];
        let ok = match ty {
            "vec64" => { (0..n as u64).map(|i| i.wrapping_mul(0x9E3779B97F4A7C15) ^ 0xA5).collect::<Vec<u64>>().serialize(&mut mem).is_ok() }
            "vec8" => { (0..n).map(|i| (i * 7 + 3) as u8).collect::<Vec<u8>>().serialize(&mut mem).is_ok() }
            "string" => { "ab".repeat(n).serialize(&mut mem).is_ok() }
            _ => { mem = on_disk.clone(); true }
        };
        store_exact = ok && mem == on_disk;
    }
    CANARY_DROPS.store(0, SeqCst);
    let mut o = Obs::default();
    let mut big_res128 = 0usize;
    let path_ref = &path;
    let heap0 = live();
    let maps0 = nmaps() as i64;
    mark(format_args!("load"));
    let r = catch_unwind(AssertUnwindSafe(|| {
        let o = &mut o;
        match (loader, ty) {
            ("load_full", "vec64") => observe_full(<Vec<u64>>::load_full(path_ref), digest, o),
            ("load_full", "vec8") => observe_full(<Vec<u8>>::load_full(path_ref), digest, o),
            ("load_full", "string") => observe_full(<String>::load_full(path_ref), digest, o),
            ("load_full", "doc") => observe_full(<Doc<Vec<u64>, String>>::load_full(path_ref), digest, o),
            ("load_full", "canary") => observe_full(<Canary<Vec<u64>>>::load_full(path_ref), digest, o),
            ("load_full", "lay") => observe_full(<Lay>::load_full(path_ref), digest, o),
            ("load_full", "strs") => observe_full(<Vec<String>>::load_full(path_ref), digest, o),
            (_, "strs") => observe_case(run_loader!(Vec<String>, loader, flags, path_ref), file_len, &ops, digest, o),
            ("load_full", "big128") => observe_full(<Big128>::load_full(path_ref).map(|_| Lay { a: 0, b: 0 }), Lay { a: 0, b: 0 }.digest(), o),
            (_, "vec64") => observe_case(run_loader!(Vec<u64>, loader, flags, path_ref), file_len, &ops, digest, o),
            (_, "vec8") => observe_case(run_loader!(Vec<u8>, loader, flags, path_ref), file_len, &ops, digest, o),
            (_, "string") => observe_case(run_loader!(String, loader, flags, path_ref), file_len, &ops, digest, o),
            (_, "doc") => observe_case(run_loader!(Doc<Vec<u64>, String>, loader, flags, path_ref), file_len, &ops, digest, o),
            (_, "canary") => observe_case(run_loader!(Canary<Vec<u64>>, loader, flags, path_ref), file_len, &ops, digest, o),
            (_, "lay") => observe_case(run_loader!(Lay, loader, flags, path_ref), file_len, &ops, digest, o),
            (_, "big128") => {
                let res = run_loader!(Big128, loader, flags, path_ref);
                mark(format_args!("loaded:{}", match &res { Ok(_) => "ok", Err(e) => err_name(e) }));
                o.heap1 = live(); o.maps1 = nmaps() as i64;
                match res { Ok(mc) => { o.res = "ok"; big_res128 = (*mc) as *const Big128 as usize % 128; o.digest_ok = true; drop(mc); } Err(e) => o.res = err_name(&e) }
                mark(format_args!("dropped"));
                o.heap2 = live(); o.maps2 = nmaps() as i64;
            }
            _ => { o.res = "unknown-type"; }
        }
    }));
    // a panic inside the loader (ε-copy bounds check on a truncated file) unwinds through it: drop the
    // payload first, then measure what the failed load left behind
    let did_panic = r.is_err();
    drop(r);
    if did_panic {
        mark(format_args!("loaded:panic"));
        mark(format_args!("dropped"));
        o.heap1 = live(); o.maps1 = nmaps() as i64;
        o.heap2 = o.heap1; o.maps2 = o.maps1;
    }
    let panicked: Option<String> = if did_panic { Some("panic inside the loader".to_string()) } else { None };
    let canary_drops = CANARY_DROPS.load(SeqCst);
    let canary_valid = CANARY_SEEN.load(SeqCst) == (0..n as u64).map(|i| i.wrapping_mul(0x9E3779B97F4A7C15) ^ 0xA5).collect::<Vec<u64>>().peek();
    let _ = std::fs::remove_file(&path);
    let _ = std::fs::remove_dir(&path);
    json!({
        "file_len": file_len, "store_exact": store_exact,
        "res": if panicked.is_some() { "panic" } else { o.res }, "msg": panicked,
        "region": if o.has_region { json!({"cap": o.cap, "res64": o.res64, "res4096": o.res4096, "tail_zero": o.tail_zero}) } else { Value::Null },
        "digest_ok": o.digest_ok, "digests": o.digests[..o.ndig].to_vec(),
        "digest_stable": o.digests[..o.ndig].iter().all(|d| *d == o.digests[0]),
        "all_inside": o.all_inside, "region_mapped_after_drop": o.region_mapped_after_drop,
        "heap_after_load": o.heap1 - heap0, "maps_after_load": o.maps1 - maps0,
        "heap_after_drop": o.heap2 - heap0, "maps_after_drop": o.maps2 - maps0,
        "canary_drops": canary_drops, "canary_saw_valid_data": canary_valid, "big_res128": big_res128,
    })
}
