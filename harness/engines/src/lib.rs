//! Non-generic engines (cursor, MemCase lifecycle): kept out of the `harness`
//! library so that editing them does not rebuild the type-universe shards.
pub mod cursor;
#[cfg(epserde_verif)]
pub mod memcase;

pub fn panic_msg(p: Box<dyn std::any::Any + Send>) -> String {
    if let Some(s) = p.downcast_ref::<&str>() { s.to_string() }
    else if let Some(s) = p.downcast_ref::<String>() { s.clone() }
    else { "panic".into() }
}
