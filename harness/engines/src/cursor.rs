//! AlignedCursor vs the specification's cursor (and std::io::Cursor<Vec<u8>>).

use epserde::utils::AlignedCursor;
use maligned::{Alignment, A16, A64};
use serde_json::{json, Value};
use std::io::{Cursor, Read, Seek, SeekFrom, Write};
use std::panic::{catch_unwind, AssertUnwindSafe};

pub trait Cur {
    fn w(&mut self, b: &[u8]) -> std::io::Result<usize>;
    fn r(&mut self, b: &mut [u8]) -> std::io::Result<usize>;
    fn s(&mut self, f: SeekFrom) -> std::io::Result<u64>;
    fn setp(&mut self, p: u64);
    fn state(&mut self) -> (usize, u64, Vec<u8>, usize);
}
impl<T: Alignment> Cur for AlignedCursor<T> {
    fn w(&mut self, b: &[u8]) -> std::io::Result<usize> { self.write(b) }
    fn r(&mut self, b: &mut [u8]) -> std::io::Result<usize> { self.read(b) }
    fn s(&mut self, f: SeekFrom) -> std::io::Result<u64> { self.seek(f) }
    fn setp(&mut self, p: u64) { self.set_position(p as usize) }
    fn state(&mut self) -> (usize, u64, Vec<u8>, usize) {
        let len = self.len();
        let pos = self.position() as u64;
        let bytes = self.as_bytes().to_vec();
        let mis = if len == 0 { 0 } else { self.as_bytes().as_ptr() as usize % core::mem::align_of::<T>() };
        (len, pos, bytes, mis)
    }
}
impl Cur for Cursor<Vec<u8>> {
    fn w(&mut self, b: &[u8]) -> std::io::Result<usize> { self.write(b) }
    fn r(&mut self, b: &mut [u8]) -> std::io::Result<usize> { self.read(b) }
    fn s(&mut self, f: SeekFrom) -> std::io::Result<u64> { self.seek(f) }
    fn setp(&mut self, p: u64) { self.set_position(p) }
    fn state(&mut self) -> (usize, u64, Vec<u8>, usize) {
        (self.get_ref().len(), self.position(), self.get_ref().clone(), 0)
    }
}

fn bytes(v: &Value) -> Vec<u8> { v.as_array().unwrap().iter().map(|x| x.as_u64().unwrap() as u8).collect() }

/// one operation; returns {ok, n, data} or {panic}
pub fn step(c: &mut dyn Cur, op: &str, arg: &Value) -> Value {
    let r = catch_unwind(AssertUnwindSafe(|| match op {
        "write" => { let b = bytes(arg); match c.w(&b) { Ok(n) => json!({"ok": true, "n": n, "data": []}), Err(e) => json!({"ok": false, "n": 0, "data": [], "kind": format!("{:?}", e.kind())}) } }
        "read" => {
            let mut b = vec![0u8; arg.as_u64().unwrap() as usize];
            match c.r(&mut b) { Ok(n) => json!({"ok": true, "n": n, "data": b[..n].to_vec()}), Err(e) => json!({"ok": false, "n": 0, "data": [], "kind": format!("{:?}", e.kind())}) }
        }
        "seek_start" | "seek_cur" | "seek_end" => {
            let f = match op { "seek_start" => SeekFrom::Start(arg.as_u64().unwrap()), "seek_cur" => SeekFrom::Current(arg.as_i64().unwrap()), _ => SeekFrom::End(arg.as_i64().unwrap()) };
            match c.s(f) { Ok(n) => json!({"ok": true, "n": n, "data": []}), Err(e) => json!({"ok": false, "n": 0, "data": [], "kind": format!("{:?}", e.kind())}) }
        }
        "set_position" => { let p = arg.as_u64().unwrap(); c.setp(p); json!({"ok": true, "n": p, "data": []}) }
        _ => json!({"error": "op"}),
    }));
    match r { Ok(v) => v, Err(p) => json!({"panic": crate::panic_msg(p)}) }
}

fn run_history(c: &mut dyn Cur, h: &[Value]) -> Vec<Value> {
    let mut out = vec![];
    for e in h {
        let res = step(c, e["op"].as_str().unwrap(), &e["arg"]);
        let dead = res.get("panic").is_some();
        let st = catch_unwind(AssertUnwindSafe(|| c.state()));
        match st {
            Ok((len, pos, b, mis)) => out.push(json!({"res": res, "len": len, "pos": pos, "bytes": b, "mis": mis})),
            Err(p) => { out.push(json!({"res": res, "state_panic": crate::panic_msg(p)})); break; }
        }
        if dead { break; }
    }
    out
}

/// Replay one history (array of {op,arg,...}) on the three cursors.
pub fn replay(h: &Value) -> Value {
    let h = h.as_array().unwrap();
    json!({
        "a16": run_history(&mut AlignedCursor::<A16>::new(), h),
        "a64": run_history(&mut AlignedCursor::<A64>::new(), h),
        "std": run_history(&mut Cursor::new(Vec::<u8>::new()), h),
    })
}

/// A long random history on an AlignedCursor, as trace events.
pub fn record(seed: u64, nops: usize, a64: bool, out: &mut Vec<Value>) {
    use rand::{Rng, SeedableRng};
    let mut rng = rand::rngs::StdRng::seed_from_u64(seed);
    let mut c16 = AlignedCursor::<A16>::new();
    let mut c64 = AlignedCursor::<A64>::new();
    out.push(json!({"ev": "init", "engine": "cursor", "align": if a64 { 64 } else { 16 }, "seed": seed}));
    for i in 0..nops {
        let c: &mut dyn Cur = if a64 { &mut c64 } else { &mut c16 };
        let (len, pos, _, _) = c.state();
        let k = rng.gen_range(0..10);
        let (op, arg): (&str, Value) = match k {
            0..=3 => { let n = [0usize, 1, 3, 8, 17, 40][rng.gen_range(0..6)]; ("write", json!((0..n).map(|_| rng.gen::<u8>()).collect::<Vec<u8>>())) }
            4 | 5 => ("read", json!([0usize, 1, 5, 16, 100][rng.gen_range(0..5)])),
            6 => ("seek_start", json!(rng.gen_range(0..(len as u64 + 40)))),
            7 => ("seek_cur", json!(rng.gen_range(-(pos as i64) - 3..40))),
            8 => ("seek_end", json!(rng.gen_range(-(len as i64) - 3..40))),
            _ => ("set_position", json!(rng.gen_range(0..(len as u64 + 60)))),
        };
        let res = step(c, op, &arg);
        let (len2, pos2, b, mis) = c.state();
        // full contents every 16 events and at the end; a digest of length/position always
        let snap = i % 16 == 15 || i + 1 == nops || len2 <= 64;
        out.push(json!({"ev": "cop", "op": op, "arg": arg, "res": res, "len": len2, "pos": pos2, "mis": mis,
                        "snap": snap, "bytes": if snap { json!(b) } else { json!([]) }}));
    }
}

/// Extreme arguments (outside TLC's integers): AlignedCursor must agree with std::io::Cursor.
pub fn extremes() -> Value {
    let ops: Vec<Vec<(&str, Value)>> = vec![
        vec![("seek_cur", json!(i64::MAX)), ("seek_cur", json!(i64::MAX)), ("seek_cur", json!(5))],
        vec![("seek_end", json!(i64::MIN))],
        vec![("seek_start", json!(u64::MAX)), ("seek_cur", json!(1)), ("seek_cur", json!(-1))],
        vec![("write", json!([1, 2, 3])), ("seek_end", json!(i64::MAX)), ("seek_cur", json!(i64::MAX)), ("read", json!(4))],
        vec![("set_position", json!(u64::MAX)), ("read", json!(3)), ("seek_cur", json!(-5)), ("seek_end", json!(-1))],
        vec![("set_position", json!(u64::MAX - 1)), ("seek_cur", json!(1)), ("seek_cur", json!(1))],
        vec![("seek_start", json!(1u64 << 63)), ("seek_cur", json!(i64::MAX)), ("seek_cur", json!(2))],
    ];
    let mut res = vec![];
    for h in ops {
        let hv: Vec<Value> = h.iter().map(|(o, a)| json!({"op": o, "arg": a})).collect();
        let strip = |v: Vec<Value>| -> Vec<Value> { v.into_iter().map(|mut x| { x.as_object_mut().unwrap().remove("bytes"); x.as_object_mut().unwrap().remove("mis"); x }).collect() };
        let a = strip(run_history(&mut AlignedCursor::<A16>::new(), &hv));
        let s = strip(run_history(&mut Cursor::new(Vec::<u8>::new()), &hv));
        res.push(json!({"history": hv, "same": a == s, "aligned": a, "std": s}));
    }
    Value::Array(res)
}
