// @generated
use std::collections::HashMap;
use std::io::BufWriter;
#[global_allocator]
static GLOBAL: harness::alloc::Tracking = harness::alloc::Tracking;
fn main() {
    std::panic::set_hook(Box::new(|_| {}));
    let args: Vec<String> = std::env::args().collect();
    let mut t: HashMap<&'static str, Box<dyn harness::runner::Runner>> = HashMap::new();
    t.extend(g5s0::table()); t.extend(g5s1::table()); t.extend(g5s2::table()); t.extend(g5s3::table()); t.extend(g5s4::table()); t.extend(g5s5::table());
    let out = std::io::stdout();
    let mut out = BufWriter::new(out.lock());
    if !harness::cli::run_table_cmd(&t, &args, &mut out) { std::process::exit(2); }
}
