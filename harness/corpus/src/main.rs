//! Writes the corpus of C06: one serialized stream per (type, seeded value) of the compiled universe,
//! with the type descriptor and the abstract value it was written from. Built once against the *pinned*
//! tree (before any fix) by tools/make_corpus.sh; the result is committed under /verif/corpus.
use harness::model::Gen;
use harness::runner::Runner;
use serde_json::{json, Value};
use std::collections::HashMap;
use std::io::Write;

fn main() {
    std::panic::set_hook(Box::new(|_| {}));
    let args: Vec<String> = std::env::args().collect();
    let seed: u64 = args.get(1).and_then(|s| s.parse().ok()).unwrap_or(1);
    let per_type: usize = args.get(2).and_then(|s| s.parse().ok()).unwrap_or(2);
    let mut t: HashMap<&'static str, Box<dyn Runner>> = HashMap::new();
    t.extend(u0::table()); t.extend(u1::table()); t.extend(u2::table()); t.extend(u3::table());
    t.extend(u4::table()); t.extend(u5::table()); t.extend(u6::table()); t.extend(u7::table());
    t.extend(u8::table()); t.extend(u9::table()); t.extend(u10::table()); t.extend(u11::table());
    let mut keys: Vec<&str> = t.keys().cloned().collect();
    keys.sort();
    let out = std::io::stdout();
    let mut out = std::io::BufWriter::new(out.lock());
    for k in keys {
        // serialize-only sources are written as the vector type: the vector's own entry covers them
        if k.starts_with("&[") || k.starts_with("SerIter<") || k.starts_with("G<&[") || k.starts_with("G<SerIter<") { continue; }
        let r = &t[k];
        for i in 0..per_type {
            let mut g = Gen::new(seed.wrapping_mul(7919).wrapping_add(i as u64), if i == 0 { 3 } else { 12 });
            let v = r.arb(&mut g);
            let o = r.run(&json!({"cmd": "ser", "key": k, "v": v, "sink": {"kind": "direct"}}));
            if o["st"] == "ok" {
                let facts = r.facts();
                writeln!(out, "{}", json!({"key": k, "t": r.desc(), "v": v, "bytes": o["out"], "nameLen": facts["name_len"]})).unwrap();
            }
        }
    }
    let _: Option<Value> = None;
}
