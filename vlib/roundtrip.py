"""C01 C02 C03 C06 C07 C18: the round-trip family.

One TLC run of MC_RoundTrip (serializer machine -> full-copy machine -> ε-copy
machine over the bounded universe) checks the design-level invariants and
prints every terminal state as a behaviour; each behaviour is replayed into
the real library and the observation compared with the specification's
prediction, per property, only in what that property names."""
import json
import os

from .common import *

INVARIANTS = ["PosCounts", "BlockAligned", "UnitsSane", "OutIsEncode", "OutIsPrefix", "FullRoundTrip",
              "EpsRoundTrip", "BorrowsInPlace", "AllocsAreSkeleton", "ScaleInvariant", "RowsWithin", "RowsPreorder", "RowsAligned", "PaddingZero",
              "SchemaTiles", "SchemaTopTiles"]

FIXED = {"UsizeBytes": 8, "ZstUnit": 1, "TupleRangeConstTrue": False, "BugSliceFree": False, "BugCFlowTags": False, "BugOptTag": False,
         "BugArray0": False, "BugZstSlice": False, "BugZstNoAlign": False, "SinkGrain": "call", "SinkFaulty": False, "MaxFaults": 0,
         "ReaderGrain": "call", "ReaderFaulty": False, "MaxRFaults": 0}


def resolve(expected, f):
    """Expected stream of the specification with the symbolic bytes resolved:
    hash words by xxh3 over the *specification's* preimage; None = don't care."""
    out = []
    for b in expected:
        if b < 256:
            out.append(b)
        elif 301 <= b <= 308:
            out.append(f["spec_th"][b - 301])
        elif 311 <= b <= 318:
            out.append(f["spec_ah"][b - 311])
        else:
            out.append(None)
    return out


def bytes_match(exp, got):
    if len(exp) != len(got):
        return False
    return all(e is None or e == g for e, g in zip(exp, got))


def first_diff(exp, got):
    for i, (e, g) in enumerate(zip(exp, got)):
        if e is not None and e != g:
            return i
    return min(len(exp), len(got))


def run_model(tier, typeset, vlevel, pres, names_path, tag):
    cfg = os.path.join(WORK, tag, "mc.cfg")
    os.makedirs(os.path.join(WORK, tag), exist_ok=True)
    consts = dict(FIXED)
    consts.update({"VLevel": vlevel, "TypeSet": typeset, "Pres": "{" + ",".join(map(str, pres)) + "}"})
    write_cfg(cfg, consts, invariants=INVARIANTS + ["Emit"])
    r = tlc("MC_RoundTrip", cfg, tag, env={"NAMES": names_path}, workers=8, timeout=3000)
    if not r.ok:
        raise ToolError(f"TLC did not complete on MC_RoundTrip ({typeset}): "
                        f"violated={r.violated} error={r.error}\n{r.out[-2500:]}")
    return r


def case_id(b):
    return f"{b['key']}|{json.dumps(b['v'], separators=(',', ':'))}|{b['mode']}|{b['pre']}|{b['base']}"


def rows_norm_spec(rows):
    return [(".".join(r["field"]), r["off"], r["size"], r["align"]) for r in rows]


def rows_norm_obs(rows):
    return [(r["field"], r["off"], r["size"], r["align"]) for r in rows]


def judge(pid, b, o, f, V):
    """Compare one behaviour `b` (prediction) with one observation `o` for property pid."""
    key = b["key"]
    cid = case_id(b)
    ser_exp = b["ser"]
    if o is None or "error" in o:
        V.notes.append(f"not replayed: {key}: {o}")
        return
    if "abort" in o:
        # the process died while this case ran: serialize / deserialize of this value killed it
        V.count((key, json.dumps(b["v"]), b["mode"], b["pre"]), True)
        if pid in ("C01", "C02"):
            V.violate(f"{pid}:abort:{key}", f"round trip of a value of {key} aborted the process: {o.get('stderr', '')[:200]}",
                      {"behaviour": b, "observed": o})
        return
    s = o["ser"]
    nontrivial = len(ser_exp["out"]) > (37 + b["nameLen"] if b["mode"] == "pub" else 0)
    V.count((key, json.dumps(b["v"]), b["mode"], b["pre"]), nontrivial)
    rep = {"behaviour": b, "observed": o}

    def viol(what, kind):
        V.violate(f"{pid}:{kind}:{key}", what, rep)

    if pid == "C01":
        if s["st"] != "ok":
            viol(f"serialization of a value of {key} ended with {s['st']} ({s.get('msg', '')})", "ser")
            return
        fu = o.get("full", {})
        if fu.get("st") != "ok":
            viol(f"full-copy deserialization of {key} failed: {fu.get('st')} {fu.get('msg', fu.get('detail'))}", "full")
        elif fu["val"] != [b["v"]]:
            viol(f"full-copy round trip of {key} changed the value: {b['v']} -> {fu['val']}", "value")
    elif pid == "C02":
        if s["st"] != "ok":
            viol(f"serialization of a value of {key} ended with {s['st']} ({s.get('msg', '')})", "ser")
            return
        e = o.get("eps", {})
        fu = o.get("full", {})
        if e.get("st") != "ok":
            viol(f"ε-copy deserialization of {key} from an aligned buffer failed: {e.get('st')} {e.get('msg', '')}", "eps")
        else:
            if e["val"] != [b["v"]]:
                viol(f"ε-copy round trip of {key} changed the value: {b['v']} -> {e['val']}", "value")
            if fu.get("st") == "ok" and fu["val"] != e["val"]:
                viol(f"ε-copy and full copy of the same bytes of {key} disagree", "modes")
        fa = f.get(b["rkey"])
        if fa and not fa.get("src") and fa["deser_name"] != fa["pred_deser_name"]:
            viol(f"ε-copy type of {key} is {fa['deser_name']}, specification says {fa['pred_deser_name']}", "shape")
    elif pid == "C03":
        e = o.get("eps", {})
        if s["st"] != "ok" or e.get("st") != "ok":
            return  # C01/C02 territory
        exp = b["eps"]["borrows"]
        got = e["borrows"]
        if len(exp) != len(got):
            viol(f"{key}: {len(got)} borrowed parts, specification predicts {len(exp)}", "count")
            return
        # the property relates the real reader to the real writer: every borrowed part is a block the real serializer
        # wrote (offset and length as recorded by the recording WriteWithNames), whatever the specification says
        if b["mode"] == "pub":
            blocks = {(e["pos"], e["len"]) for e in s.get("ev", []) if e.get("ev") == "block"}
            for g in got:
                if g["len"] > 0 and g["inb"] and (g["off"], g["len"]) not in blocks:
                    viol(f"{key}: a borrowed part covers bytes {g['off']}..{g['off'] + g['len']} of the stream, but the serializer "
                         f"wrote no zero-copy block there (its blocks: {sorted(blocks)[:6]})", "notablock")
        for x, g in zip(exp, got):
            if g["len"] == 0 and g["esz"] == 0:
                continue  # a slice of zero-sized elements covers no byte of anything
            if not g["inb"]:
                viol(f"{key}: a borrowed part lies outside the input buffer (offset {g['off']}, {g['len']} bytes)", "oob")
            elif g["off"] != x["off"] or g["len"] != x["len"]:
                viol(f"{key}: borrowed part at offset {g['off']} len {g['len']}, written at {x['off']} len {x['len']}", "place")
            elif g["len"] > 0 and g["mis"] != 0:
                viol(f"{key}: borrowed part misaligned for its element type (address % {g['al']} = {g['mis']})", "align")
    elif pid == "C06":
        fa = f.get(b["rkey"])
        if s["st"] != ser_exp["st"]:
            # a type that does not serialize at all is C01's finding; C06 speaks of emitted bytes
            return
        if s["st"] == "ok" and fa:
            exp = resolve(ser_exp["out"], fa) if b["mode"] == "pub" else [x if x < 256 else None for x in ser_exp["out"]]
            if not bytes_match(exp, s["out"]):
                i = first_diff(exp, s["out"])
                viol(f"{key}: emitted bytes differ from format 1.1 at offset {i} "
                     f"(len {len(s['out'])} vs {len(exp)})", "bytes")
    elif pid == "C07":
        if s["st"] != "ok":
            return
        n = s.get("n")
        start = 0 if b["mode"] == "pub" else b["pre"]
        if n != start + len(s["out"]):
            viol(f"{key}: serialization returned {n}, {start + len(s['out'])} bytes were handed to the writer", "count")
        if b["mode"] == "pub" and not s.get("std_same", True):
            viol(f"{key}: std::io::Write sink received other bytes/count than the WriteNoStd sink", "std")
        for ev in s.get("ev", []):
            if ev["ev"] == "block":
                unit = ev["unit"]
                if unit <= 0 or unit & (unit - 1):
                    viol(f"{key}: alignment unit {unit} is not a power of two", "unit")
                elif ev["pos"] % unit:
                    viol(f"{key}: zero-copy block at stream offset {ev['pos']} is not a multiple of its unit {unit}", "align")
                elif unit < ev["al"]:
                    viol(f"{key}: unit {unit} is smaller than the native alignment {ev['al']}", "unit")
            if ev["ev"] == "align" and ev["ok"]:
                pad = ev["after"] - ev["pos"]
                unit = ev["unit"]
                if unit > 0 and (pad >= unit or (ev["pos"] + pad) % unit):
                    viol(f"{key}: padding of {pad} bytes before a block of unit {unit} at {ev['pos']} is not minimal", "pad")
                buf0 = ev["pos"] - start
                if any(x != 0 for x in s["out"][buf0:buf0 + pad]):
                    viol(f"{key}: padding bytes are not zero", "padzero")
        total = start + len(s["out"])
        fu = o.get("full", {})
        if fu.get("st") == "ok" and fu.get("rpos") != total:
            viol(f"{key}: full-copy consumed {fu.get('rpos')} of {total} bytes", "consumed")
        elif fu.get("st") not in ("ok", None):
            viol(f"{key}: full-copy did not consume the {total} bytes that were written: {fu.get('st')} {fu.get('msg', '')}", "consumed")
        e = o.get("eps", {})
        if b["mode"] == "body" and e.get("st") == "ok" and e.get("rpos") != total:
            viol(f"{key}: ε-copy consumed {e.get('rpos')} of {total} bytes", "consumed")
        elif e.get("st") not in ("ok", None):
            viol(f"{key}: ε-copy did not consume the {total} bytes that were written: {e.get('st')} {e.get('msg', '')}", "consumed")
        # the serializer's structure must be the one the specification's machine went through
        exp_blocks = [(r["off"], r["size"], r["align"]) for r in b["rows"] if r["field"][-1] == "zero"]
        got_blocks = [(ev["pos"], ev["len"], ev["unit"]) for ev in s.get("ev", []) if ev["ev"] == "block"]
        if exp_blocks != got_blocks:
            V.notes.append(f"SPEC-DRIFT {key}: blocks {got_blocks} vs specification {exp_blocks}")
    elif pid == "C18":
        if b["mode"] != "pub" or s["st"] != "ok":
            return
        sc = o.get("schema", {})
        if sc.get("st") != "ok":
            viol(f"{key}: serialize_with_schema ended with {sc.get('st')}", "schema")
            return
        if sc["out"] != s["out"]:
            viol(f"{key}: schema-recording serialization wrote other bytes than plain serialization", "bytes")
        if not sc["csv_ok"] or not sc["debug_ok"]:
            viol(f"{key}: rendering the schema panicked (csv_ok={sc['csv_ok']}, debug_ok={sc['debug_ok']})", "render")
        geo = schema_geometry(sc["rows"], sc["out"])
        if geo:
            viol(f"{key}: recorded schema does not describe the bytes: {geo}", "geometry")
        if rows_norm_obs(sc["rows"]) != rows_norm_spec(b["rows"]):
            V.notes.append(f"SPEC-DRIFT {key}: schema rows differ from the specification's")


def schema_geometry(rows, out):
    """The geometric statements of C18 evaluated on the real rows (the same
    predicates as the invariants RowsWithin/RowsPreorder/RowsAligned/
    PaddingZero/SchemaTiles/SchemaTopTiles of EpsSystem.tla, which TLC checks
    on the model and, through Trace_Schema, on recorded rows)."""
    n = len(out)
    R = [(r["field"].split("."), r["off"], r["size"], r["align"], r["field"]) for r in rows]
    for f, off, size, al, name in R:
        if off + size > n:
            return f"row {name} [{off},{off + size}) exceeds the stream of {n} bytes"
        if al and off % al:
            return f"row {name} at {off} is not a multiple of its alignment {al}"
        if name == "PADDING" and any(out[off:off + size]):
            return f"padding row at {off} covers non-zero bytes"
    for i in range(len(R) - 1):
        if R[i + 1][1] < R[i][1]:
            return f"rows not in pre-order at {R[i + 1][4]}"

    def in_subtree(i, j):
        fi, fj = R[i], R[j]
        if fj[4] == "PADDING":
            return fi[4] != "PADDING" and fj[1] >= fi[1] and fj[1] + fj[2] <= fi[1] + fi[2]
        if fi[4] == "PADDING":
            return False
        return len(fj[0]) > len(fi[0]) and fj[0][:len(fi[0])] == fi[0]

    def subtree_end(i):
        j = i + 1
        while j < len(R) and in_subtree(i, j):
            j += 1
        return j - 1
    ends = [subtree_end(i) for i in range(len(R))]
    for i in range(len(R)):
        j = i + 1
        at = R[i][1]
        has = False
        while j <= ends[i]:
            has = True
            if R[j][1] != at:
                return f"children of {R[i][4]} leave a gap or overlap at {at} (next child {R[j][4]} at {R[j][1]})"
            at += R[j][2]
            j = ends[j] + 1
        if has and at != R[i][1] + R[i][2]:
            return f"children of {R[i][4]} cover [{R[i][1]},{at}) but the row is [{R[i][1]},{R[i][1] + R[i][2]})"
    at = 0
    i = 0
    while i < len(R):
        if R[i][1] != at:
            return f"top-level rows leave a gap at {at}"
        at += R[i][2]
        i = ends[i] + 1
    if at != n:
        return f"top-level rows cover {at} of {n} bytes"
    return None


# which recorded events each property looks at, and which rejected events are *its* alarm
ALLK = ["enter", "exit", "align", "block", "w", "flush", "ret", "rows", "full", "eps"]
TRACE_FILTER = {
    # C01 / C02: only what the readers returned for the recorded stream
    "C01": (["full"], {"full"}),
    "C02": (["eps"], {"eps"}),
    # C03: the whole structure (the borrow check needs the machine's block rows)
    "C03": (ALLK, {"eps"}),
    # C06: the byte stream only (however many write_all calls carried it) and the returned count
    "C06": (["w", "ret"], {"w", "ret"}),
    # C07: alignment requests with the real units, the bytes (padding), the counts
    "C07": (["align", "w", "ret", "full"], {"align", "w", "ret", "full"}),
    "C18": (ALLK, {"rows"}),
}


def prep_trace(lines, keep):
    """Post-process recorded events for Trace_Ser: keep the chosen kinds, merge consecutive write_all
    calls into one `w` event, tell the specification (in `init`) which kinds were kept."""
    out = []
    lastw = None
    for line in lines:
        e = json.loads(line) if isinstance(line, str) else line
        k = e["ev"]
        if k == "init":
            e = dict(e, keep=list(keep))
            out.append(e)
            lastw = None
            continue
        if k not in keep:
            lastw = None      # a filtered-out structural event still ends a run of consecutive writes
            continue
        if k == "w":
            if not e["bytes"]:
                continue
            if lastw is not None:
                lastw["bytes"] = lastw["bytes"] + e["bytes"]
                continue
            lastw = dict(e)
            out.append(lastw)
            continue
        lastw = None
        out.append(e)
    return [json.dumps(e) for e in out]


WHAT = {"rret": "the value returned by the real full-copy reader, or the position it stopped at, is not the reader "
                "machine's on the same bytes (value serialized / every byte consumed)",
        "ralign": "an alignment request of the real full-copy reader (unit / position / skip) is not the machine's",
        "rd": "a read_exact call of the real full-copy reader (position / length) is not the machine's next fetch",
        "full": "full-copy deserialization of a recorded stream did not return the serialized value / consume it",
        "eps": "ε-copy deserialization of a recorded stream did not return the serialized value, or a borrowed part "
               "is not a block the serializer wrote",
        "rows": "the rows recorded by serialize_with_schema are not the rows of the serializer machine",
        "w": "a write_all call of the real serializer is not the next write of the serializer machine",
        "align": "an alignment request of the real serializer (unit / position) is not the machine's",
        "block": "a write_bytes call of the real serializer (unit / position / length) is not the machine's",
        "ret": "the returned byte count is not the number of bytes handed to the writer"}


def trace_validation(pid, tier, seed, V, tag):
    """impl -> spec: recorded executions on random types and values validated against Trace_Ser.tla"""
    from .cursor import split_runs
    # (thorough, whole structure kept - C03 / C18: 75 MB of events took TLC more than 25 minutes with 4000 runs)
    runs, maxlen = (400, 40) if tier == "quick" else ((1500, 150) if len(TRACE_FILTER[pid][0]) >= 4 else (4000, 150))
    raw = os.path.join(WORK, tag, "recorded.ndjson")
    # ... and a few runs whose outermost sequences have lengths around the usual buffer sizes (255 .. 8195 items,
    # multi-byte characters straddling every power of two)
    # (the serializer program of a sequence of 8000 items costs TLC tens of seconds: 80 long runs took over 25 minutes)
    nlong = 16 if (tier == "quick" or len(TRACE_FILTER[pid][0]) >= 4) else 24
    open(raw, "w").write(harness(["record", str(seed), str(runs), str(maxlen)], timeout=3000)
                         + harness(["record", str(seed + 17), str(nlong), "40", "long"], timeout=3000))
    keep, mine = TRACE_FILTER[pid]
    path = os.path.join(WORK, tag, f"trace_{pid}.ndjson")
    lines = prep_trace(open(raw).read().splitlines(), keep)
    nev = len(lines)
    open(path, "w").write("\n".join(lines) + "\n")
    acc, rej = validate_ser_traces(path, tag, V, pid, mine)
    V.cov["traces_validated_against_impl"] += acc
    V.cov["recorded_runs"] = acc + rej
    V.cov["recorded_runs_accepted"] = acc
    V.cov["recorded_events"] = nev
    # the full-copy reader, call by call (Trace_Read.tla)
    if pid in READ_TRACE_MINE:
        rl = [x for x in open(raw).read().splitlines() if re.search(r'"ev":\s*"r(init|d|align|ret)"', x)
              and not re.search(r'"ev":\s*"rd".*"len":\s*0\b', x)]      # zero-length reads transfer nothing
        rpath = os.path.join(WORK, tag, f"rtrace_{pid}.ndjson")
        open(rpath, "w").write("\n".join(rl) + "\n")
        racc, rrej = validate_ser_traces(rpath, tag, V, pid, READ_TRACE_MINE[pid], module="Trace_Read")
        V.cov["traces_validated_against_impl"] += racc
        V.cov["recorded_reader_runs"] = racc + rrej
        V.cov["recorded_reader_runs_accepted"] = racc
        V.cov["recorded_reader_events"] = len(rl)


# which rejected reader-trace events are whose alarm: the returned value is C01's; alignment requests, positions
# and full consumption are C07's; a read_exact of another length at the right place is drift of the model's grain
READ_TRACE_MINE = {"C01": {"rret"}, "C07": {"ralign", "rret"}}


def validate_ser_traces(path, tag, V, pid, mine, module="Trace_Ser"):
    from .cursor import split_runs
    runs = split_runs(path, first="rinit" if module == "Trace_Read" else "init")
    consts = {"UsizeBytes": 8, "ZstUnit": 1, "VLevel": 1, "TupleRangeConstTrue": False, "BugSliceFree": False,
              "SinkGrain": "call", "SinkFaulty": False, "MaxFaults": 0}
    invs = ["Furthest", "TPosCounts", "TBlockAligned"]
    if module == "Trace_Read":
        consts.update({"BugCFlowTags": False, "BugOptTag": False, "BugArray0": False, "BugZstSlice": False,
                       "BugZstNoAlign": False, "ReaderGrain": "call", "ReaderFaulty": False, "MaxRFaults": 0})
        invs = ["Furthest", "TInBounds"]
    accepted = rejected = 0
    pending = runs
    rounds = 0
    while pending and rounds < 25:
        rounds += 1
        p = os.path.join(WORK, tag, f"{module.lower()}_{pid}_{rounds}.ndjson")
        with open(p, "w") as f:
            for r in pending:
                f.writelines(r)
        cfg = os.path.join(WORK, tag, "tser.cfg")
        write_cfg(cfg, consts, init="TInit", next_="TNext", invariants=invs, extra="POSTCONDITION Accepted")
        r = tlc(module, cfg, tag, env={"TRACE": p}, workers=1, timeout=3000,
                java_opts=["-Xss1g", "-Dtlc2.tool.queue.IStateQueue=StateDeque"])
        V.add_tlc(r)
        if r.violated:
            raise ToolError(f"invariant {r.violated} violated during trace validation:\n{r.out[-2000:]}")
        if "TRACE-REJECTED" not in r.out:
            if r.error:
                raise ToolError(f"trace validation failed: {r.error}\n{r.out[-2000:]}")
            accepted += len(pending)
            break
        m = re.search(r'"TRACE-REJECTED at line",\s*(\d+)', r.out)
        line = int(m.group(1))
        n = 0
        bad = None
        for i, run in enumerate(pending):
            if n < line <= n + len(run):
                bad = i
                break
            n += len(run)
        if bad is None:
            raise ToolError(f"trace rejected at line {line} beyond the trace")
        run = pending[bad]
        at = line - n - 1
        ev = json.loads(run[at])
        init = json.loads(run[0])
        kind = ev["ev"]
        rep = {"init": init, "rejected_event": ev, "event_index": at, "prefix": [json.loads(x) for x in run[max(1, at - 6):at]]}
        is_mine = kind in mine
        if kind == "rret":
            # The reader trace can be rejected at its last line only because an earlier call was left out or added
            # by a harmless change of grain: the returned value / final position are this property's matter only
            # if they are wrong *in themselves* (what was serialized / the length of the stream).
            wrong_val = ev.get("st") != "ok" or ev.get("val") != [init.get("v")]
            wrong_pos = ev.get("st") == "ok" and ev.get("rpos") != len(init.get("bytes", []))
            is_mine = (pid == "C01" and wrong_val) or (pid == "C07" and wrong_pos)
        if kind == "rows" and pid == "C18":
            # Row-by-row equality with the machine's rows is the model's grain (names, order of equal offsets); the
            # property is geometric: same bytes as plain serialization, rows inside the stream and on their units
            n_ret = next((json.loads(x).get("n", 0) for x in run if '"ev": "ret"' in x or '"ev":"ret"' in x), None)
            bad_geo = any(r["off"] < 0 or r["size"] < 0 or (n_ret is not None and r["off"] + r["size"] > n_ret)
                          or (r["align"] > 1 and r["field"][-1:] == ["zero"] and r["off"] % r["align"] != 0) for r in ev["rows"])
            is_mine = (not ev.get("same_bytes", True)) or bad_geo
        if is_mine:
            from .gen_key import key_of_desc
            V.violate(f"{pid}:trace-{kind}:{key_of_desc(init['t'])}", WHAT.get(kind, "recorded execution rejected") +
                      f" (type {key_of_desc(init['t'])}, event #{at}: {json.dumps(ev)[:160]})", rep)
        else:
            V.notes.append(f"SPEC-DRIFT: recorded run rejected at a `{kind}` event (not this property's): {json.dumps(ev)[:120]}")
        rejected += 1
        accepted += bad
        pending = pending[bad + 1:]
    return accepted, rejected


def displaced(beh, V, tag):
    """C03 on buffers that do not start at an aligned address: whenever ε-copy deserialization succeeds, every borrowed
    part is still a block the real serializer wrote (same offset, same length), in bounds and aligned - whatever the
    base address.  (Whether it must succeed at that address is C12's matter, not looked at here.)"""
    cases, meta = [], []
    for b in beh:
        if b["mode"] != "pub" or not b["eps"].get("borrows"):
            continue
        for base in (1, 2, 4, 8):
            c = {k: v for k, v in b.items() if k not in ("ser", "rows", "full", "eps", "vscaled")}
            cases.append(dict(c, cmd="rt", base=base))
            meta.append(b)
    obs = replay(cases, tag + "_displaced")
    for b, c, o in zip(meta, cases, obs):
        if not o or "abort" in o or "error" in o or o.get("ser", {}).get("st") != "ok":
            continue
        e = o.get("eps", {})
        if e.get("st") != "ok":
            continue
        V.count(("displaced", b["key"], json.dumps(b["v"]), c["base"]), True)
        blocks = {(x["pos"], x["len"]) for x in o["ser"].get("ev", []) if x.get("ev") == "block"}
        rep = {"behaviour": {k: b[k] for k in ("key", "v", "mode")}, "base": c["base"], "observed": {"eps": e, "blocks": sorted(blocks)}}
        for g in e["borrows"]:
            if g["len"] == 0:
                continue
            if not g["inb"]:
                V.violate(f"C03:oob:{b['key']}", f"{b['key']}: at base address residue {c['base']} a borrowed part lies outside the input buffer", rep)
            elif (g["off"], g["len"]) not in blocks:
                V.violate(f"C03:notablock:{b['key']}", f"{b['key']}: at base address residue {c['base']} a borrowed part covers bytes "
                          f"{g['off']}..{g['off'] + g['len']}, where the serializer wrote no zero-copy block (its blocks: {sorted(blocks)[:6]})", rep)
            elif g["mis"] != 0:
                V.violate(f"C03:align:{b['key']}", f"{b['key']}: at base address residue {c['base']} a borrowed part is misaligned for its element type", rep)
    V.cov["displaced_buffer_cases"] = len(cases)


def alloc_independence(beh, obs, V, tag):
    """C03, second half: the bytes allocated by deserialize_eps are the same for the value and for the value with
    every borrowed sequence 3 and 16 times as long (values scaled by the specification's Scale operator)."""
    cases, meta = [], []
    for b, o in zip(beh, obs):
        if b["mode"] != "pub" or not b.get("vscaled") or not o or "eps" not in o or o["eps"].get("st") != "ok":
            continue
        for vs in b["vscaled"]:
            cases.append({"key": b["key"], "cmd": "rt", "v": vs, "mode": "pub", "base": 0})
            meta.append((b, o))
    res = replay(cases, tag + "_scale")
    n = 0
    for (b, o), r in zip(meta, res):
        if not r or "eps" not in r or r["eps"].get("st") != "ok":
            continue
        n += 1
        V.count(("scale", b["key"], json.dumps(b["v"])), True)
        a0, a1 = o["eps"]["alloc_bytes"], r["eps"]["alloc_bytes"]
        if a0 != a1:
            V.violate(f"C03:alloc:{b['key']}", f"{b['key']}: ε-copy deserialization allocates {a0} bytes for a value and {a1} "
                      f"bytes for the same skeleton with longer borrowed sequences: the borrowed payload is being copied",
                      {"behaviour": {k: b[k] for k in ("key", "v")}, "alloc_bytes": [a0, a1],
                       "alloc_calls": [o["eps"]["alloc_calls"], r["eps"]["alloc_calls"]]})
    V.cov["scaled_cases"] = n


def corpus_check(tier, seed, V, tag, facts):
    """Files written by the pinned build: read by the current build in both modes to the recorded value;
    the old bytes and the bytes the current build writes for the same value are both streams of the
    published format (decided by TLC on spec/Corpus.tla); the header hash words must be unchanged."""
    import gzip
    import random
    entries = [json.loads(l) for l in gzip.open(os.path.join(ROOT, "corpus", "corpus.ndjson.gz"), "rt")]
    entries = [e for e in entries if e["key"] in facts]
    if tier == "quick":
        rnd = random.Random(seed)
        entries = rnd.sample(entries, min(1500, len(entries)))
    de = replay([{"key": e["key"], "cmd": "de", "bytes": e["bytes"], "base": 0} for e in entries], tag + "_corpus_de")
    se = replay([{"key": e["key"], "cmd": "ser", "v": e["v"], "sink": {"kind": "direct"}} for e in entries], tag + "_corpus_ser")
    path = os.path.join(WORK, tag, "corpus.ndjson")
    n = 0
    with open(path, "w") as f:
        for e, d, s in zip(entries, de, se):
            key = e["key"]
            V.count(("corpus", key, json.dumps(e["v"])), True)
            rep = {"key": key, "v": e["v"], "file_bytes": e["bytes"][:80], "observed": {"de": d, "ser": s and {k: s[k] for k in s if k != "out"}}}
            if d is None or "error" in (d or {}) or s is None:
                continue
            if "abort" in d:
                V.violate(f"C06:corpus-abort:{key}", f"reading a file of {key} written by the pinned build killed the process", rep)
                continue
            for side in ("full", "eps"):
                got = d[side]
                if got["st"] != "ok":
                    V.violate(f"C06:corpus-refused:{key}", f"a file of {key} written by the pinned build is no longer readable "
                              f"({side}: {got['st']} {got.get('msg', '')})", rep)
                elif got["val"] != [e["v"]]:
                    V.violate(f"C06:corpus-value:{key}", f"a file of {key} written by the pinned build now reads to another value ({side})", rep)
            if s.get("st") != "ok":
                V.violate(f"C06:corpus-ser:{key}", f"the value of a corpus file of {key} no longer serializes: {s.get('st')}", rep)
                continue
            if s["out"][:29] != e["bytes"][:29]:
                V.violate(f"C06:corpus-header:{key}", f"the header (version / hash words) the current build writes for {key} "
                          f"differs from the pinned build's", rep)
            f.write(json.dumps({"key": key, "t": e["t"], "v": e["v"], "nameLen": e["nameLen"], "bytes": e["bytes"], "now": s["out"]}) + "\n")
            n += 1
    cfg = os.path.join(WORK, tag, "corpus.cfg")
    write_cfg(cfg, {"UsizeBytes": 8, "ZstUnit": 1, "TupleRangeConstTrue": False}, init="TInit", next_="TNext",
              extra="POSTCONDITION Accepted")
    # validate in rounds: a rejected entry is reported and cut out
    lines = open(path).read().splitlines()
    rounds = 0
    while lines and rounds < 10:
        rounds += 1
        p = os.path.join(WORK, tag, f"corpus_{rounds}.ndjson")
        open(p, "w").write("\n".join(lines) + "\n")
        r = tlc("Corpus", cfg, tag, env={"TRACE": p}, workers=1, timeout=3000,
                java_opts=["-Xss1g", "-Dtlc2.tool.queue.IStateQueue=StateDeque"])
        V.add_tlc(r)
        if "TRACE-REJECTED" not in r.out:
            if r.error:
                raise ToolError(f"corpus validation failed: {r.error}\n{r.out[-2000:]}")
            break
        m = re.search(r'"TRACE-REJECTED at line",\s*(\d+)', r.out)
        i = int(m.group(1)) - 1
        e = json.loads(lines[i])
        V.violate(f"C06:corpus-format:{e['key']}", f"the bytes of a corpus file of {e['key']} (or the bytes the current build "
                  f"writes for its value) are not the published encoding of that value", {"key": e["key"], "v": e["v"],
                  "file": e["bytes"][:120], "now": e["now"][:120]})
        lines = lines[i + 1:]
    V.cov["corpus_entries_checked"] = n
    V.cov["traces_validated_against_impl"] += n


TIERS = {
    # typeset, value level, preceding lengths of the body-only runs
    "quick": ("quick1", 1, [0, 1, 2, 3, 5, 7, 9, 15]),
    # (the whole universe to depth 2 with 13 preceding lengths did not finish in 45 minutes: 6 lengths)
    "thorough": ("all", 1, [0, 1, 3, 7, 15, 63]),
}


def check(pid, tier, seed, V, facts, names_path):
    typeset, vlevel, pres = TIERS[tier]
    tag = f"rt_{tier}"
    r = run_model(tier, typeset, vlevel, pres, names_path, tag)
    V.add_tlc(r)
    beh = r.json_lines
    if not beh:
        raise ToolError("TLC printed no behaviours")
    cases = [dict(b, cmd="rt") for b in beh]
    for c in cases:
        for k in ("ser", "rows", "full", "eps", "vscaled"):
            c.pop(k, None)
    obs = replay(cases, tag)
    if pid == "C03":
        alloc_independence(beh, obs, V, tag)
        displaced(beh, V, tag)
    for b, o in zip(beh, obs):
        judge(pid, b, o, facts, V)
    trace_validation(pid, tier, seed, V, tag)
    if pid == "C06":
        corpus_check(tier, seed, V, tag, facts)
        # the hash recipes are part of the published format: real preimage (recording Hasher) = specification's,
        # for every compiled type (the header words of the streams above are xxh3 of the specification's preimage)
        n = 0
        for k, fa in facts.items():
            if fa.get("src"):
                continue
            n += 1
            for w in ("th", "ah"):
                if fa[w] != fa["spec_" + w + "_pre"]:
                    V.violate(f"C06:recipe:{k}", f"{k}: the {'type' if w == 'th' else 'alignment'} hash is not the published "
                              f"function of the type's structure (preimage differs from the specification's recipe)",
                              {"key": k, "real": fa[w], "spec": fa["spec_" + w + "_pre"]})
        V.cov["hash_recipes_compared"] = n
    V.cov["traces_validated_against_impl"] += len(beh)
    V.sample({"behaviour": {k: beh[0][k] for k in ("key", "v", "mode", "pre")}, "predicted_out_len": len(beh[0]["ser"]["out"])})
    mid = beh[len(beh) // 2]
    V.sample({"behaviour": {k: mid[k] for k in ("key", "v", "mode", "pre")}, "predicted_rows": mid["rows"][:6]})
    V.cov["rule"] = ("TLC enumerates (type, value, entry point, preceding length) over the bounded universe "
                     f"{typeset} (value level {vlevel}); every terminal state is replayed into the real library; "
                     "distinct = distinct (type, value, mode, pre); non-trivial = the value encodes to at least one byte")
    V.cov["universe"] = typeset
    V.cov["behaviours_replayed"] = len(beh)
    V.cov["exhaustive"] = True
    V.assumptions += [
        "bounded universe: types to nesting depth 1 (quick) / 2 (thorough) over the leaves of spec/Universe.tla",
        "hash words compared with xxh3 of the specification's preimage; xxh3 collisions are outside the model",
        "type-name bytes in the header are not compared (not part of the checked format)",
    ]
