"""C05: derived implementations are correct for every user type in the grammar.

spec/Derive.tla enumerates the grammar of definitions (named / tuple / unit structs; unit / tuple /
struct variants; type, const and defaulted parameters; phantom parameters; inline bounds and
where-clauses; zero_copy / deep_copy / repr attributes; fields whose type is a parameter vs fields
that merely mention one; nesting of previously defined types) and their instantiations, and for
each the predictions of the recipe operators (ε-copy type, IS_ZERO_COPY, layout, hash preimages).
gen/gen_universe.py (grammar profile) writes them as Rust with #[derive(Epserde)]:
  1. compilation is the first observation (per-definition outcome from cargo's JSON messages);
  2. the real ε-copy type, constants and hash preimages are compared with the predictions;
  3. MC_RoundTrip over the grammar types: every (type, value) through the serializer, full-copy and
     ε-copy machines; every behaviour replayed into the real derived code in both modes."""
import json
import os
import re

from .common import *
from . import roundtrip

G5BIN = os.path.join(HARNESS, "target", "debug", "g5cli")


def build_g5(V):
    p = sh(["cargo", "build", "-p", "g5cli", "--offline", "--message-format=json", "-q"], cwd=HARNESS, timeout=3000)
    errs = []
    for line in p.stdout.splitlines():
        try:
            m = json.loads(line)
        except ValueError:
            continue
        if m.get("reason") == "compiler-message" and m["message"]["level"] == "error":
            spans = m["message"].get("spans") or []
            sp = next((s for s in spans if s.get("is_primary")), spans[0] if spans else None)
            errs.append((m["target"]["name"], sp["file_name"] if sp else "", sp["line_start"] if sp else 0,
                         (m["message"].get("code") or {}).get("code"), m["message"]["message"]))
    if p.returncode == 0:
        return True
    if not errs:
        raise ToolError("grammar crate build failed without compiler messages:\n" + p.stderr[-3000:])
    # map every error in the definitions file to the definition it belongs to
    src = open(os.path.join(HARNESS, "g5", "defs", "src", "lib.rs")).read().splitlines()
    seen = set()
    for target, fn, line, code, msg in errs:
        name = "?"
        if fn.endswith("g5/defs/src/lib.rs"):
            decl = ""
            # an error inside the generated bridge code (impl Model / impl Proj lines) is the harness's own
            at = src[line - 1] if 0 < line <= len(src) else ""
            if re.match(r"\s*(impl\b|fn\b)", at) or "fn proj(" in at or "fn from_aval(" in at or "fn to_aval(" in at or "fn arb(" in at:
                raise ToolError(f"the generated bridge code of the grammar crate does not compile ({fn}:{line}): {code} {msg}\n{at[:300]}")
            # the span of a derive error is the #[derive] line: the definition follows within a few lines
            cand = list(range(line - 1, min(len(src), line + 6))) + list(range(line - 2, max(0, line - 12), -1))
            for i in cand:
                mm = re.match(r"\s*pub (struct|enum) (\w+)(.*)", src[i]) if 0 <= i < len(src) else None
                if mm:
                    name = mm.group(2)
                    decl = src[i].strip()[:160]
                    break
        else:
            decl = ""
            # an error in a table line of a shard: `R::<T, DT>` requires the derived ε-copy type of T to be DT, the type
            # the specification's DeserShape predicts
            try:
                tl = open(fn if os.path.isabs(fn) else os.path.join(HARNESS, fn)).read().splitlines()[line - 1]
                mm = re.search(r'\(\("([^"]+)"', tl)
                if mm:
                    name = mm.group(1)
                    decl = f"ε-copy type of {name} (R::<T, DeserType> in the generated table)"
            except (OSError, IndexError):
                pass
        if name in seen:
            continue
        seen.add(name)
        # classify by the decoration of the definition (name suffix): d1 inline bound, d2 default, d3 where-clause
        kind = "other"
        mm = re.search(r"d([0-9])$", name)
        if mm:
            kind = {"1": "inline-bound", "2": "default", "3": "where-clause"}.get(mm.group(1), "plain")
        what = "enum" if name.startswith("E") else "struct"
        V.violate(f"C05:compile:{what}:{kind}", f"the derived code of a definition of the supported grammar does not compile: "
                  f"`{decl}`: {code}: {msg[:200]}", {"definition": decl, "error": msg, "code": code})
        V.count(("compile", name), True)
    V.cov["definitions_failing_to_compile"] = len(seen)
    return False


def check(tier, seed, V):
    uni = os.path.join(ROOT, "gen", "grammar.json")
    g = json.load(open(uni))
    V.cov["grammar_definitions"] = len(g["defs"])
    V.cov["grammar_instantiations"] = len(g["types"])
    if not build_g5(V):
        V.cov["rule"] = "the generated crate did not compile: see violations"
        V.sample({"definitions": len(g["defs"])})
        return
    facts = json.loads(sh([G5BIN, "facts", uni], timeout=600, check=True).stdout)
    names = {k: v["name_len"] for k, v in facts.items()}
    npath = os.path.join(WORK, "names_g5.json")
    json.dump(names, open(npath, "w"))
    for k, fa in facts.items():
        pred = g["types"][k]
        V.count(("recipe", k), True)
        rep = {"type": k, "real": {x: fa[x] for x in ("deser_name", "pred_deser_name", "iszcconst", "mismatch", "zc")},
               "spec": {x: pred[x] for x in ("iszcconst", "mismatch", "size", "align", "unit")}}
        if fa["deser_name"] != fa["pred_deser_name"]:
            V.violate(f"C05:epstype:{k}", f"the ε-copy type of {k} is {fa['deser_name']}; by the rule (exactly the parameters "
                      f"that are the type of some field are replaced) it is {fa['pred_deser_name']}", rep)
        if fa["iszcconst"] != pred["iszcconst"]:
            V.violate(f"C05:iszc:{k}", f"IS_ZERO_COPY of {k} is {fa['iszcconst']}, specification {pred['iszcconst']}", rep)
        if fa["th"] != fa["spec_th_pre"] or fa["ah"] != fa["spec_ah_pre"]:
            V.violate(f"C05:hash:{k}", f"hash preimage of the derived {k} differs from the specification's recipe", rep)
        if fa["zc"] is not None and (fa["zc"]["size"] != pred["size"] or fa["zc"]["align"] != pred["align"] or fa["zc"]["unit"] != pred["unit"]):
            V.violate(f"C05:layout:{k}", f"size/align/unit of {k}: {fa['zc']}, specification {pred['size']}/{pred['align']}/{pred['unit']}", rep)
    # round trips of every value in both modes
    tag = f"c05_{tier}"
    r = roundtrip.run_model(tier, "grammar", 1 if tier == "quick" else 2, [0, 3] if tier == "quick" else [0, 1, 3, 7], npath, tag)
    V.add_tlc(r)
    beh = r.json_lines
    cases = [dict(b, cmd="rt") for b in beh]
    for c in cases:
        for k in ("ser", "rows", "full", "eps"):
            c.pop(k, None)
    obs = replay(cases, tag, binpath=G5BIN)
    from .common import Verdict
    for b, o in zip(beh, obs):
        # judged as C01 and C02 on the derived types; keyed under C05
        sub = Verdict("C05", tier, seed)
        roundtrip.judge("C01", b, o, facts, sub)
        roundtrip.judge("C02", b, o, facts, sub)
        for fkey, what, rep in sub.violations:
            V.violate("C05:roundtrip:" + fkey.split(":", 1)[1], what, rep)
        V.count((b["key"], json.dumps(b["v"]), b["mode"], b["pre"]), True)
    V.cov["traces_validated_against_impl"] += len(beh)
    V.sample({"definition": g["defs"][len(g["defs"]) // 2]["name"], "fields": g["defs"][len(g["defs"]) // 2]["fields"][:3]})
    V.sample({"behaviour": {k: beh[0][k] for k in ("key", "v", "mode")}})
    V.cov["rule"] = ("every definition of the grammar of spec/Derive.tla x every instantiation x every value of the bounded "
                     "domains, both modes, public and inner entry points; distinct = (type, value, mode, offset)")
    V.cov["exhaustive"] = True
    V.assumptions += ["grammar bounds: at most 3 fields / 3 variants, 2 type parameters + 1 const parameter; a parameter is "
                      "either the type of fields or only mentioned inside field types (WellFormedIdx), as the documented "
                      "substitution rule requires"]
