"""C10 C11 C12 C14 C15: the readers on damaged / displaced streams and failing readers.

MC_Reader serializes each case with the serializer machine, chooses one
mutation (truncation point, base-address residue, foreign tag value, header
bit flip / reversed cookie / minor version, reader failure), runs both reader
machines on the result and checks the property as an invariant.  Each terminal
state is replayed: the same mutation is applied to the *real* stream of the
same value and both real deserializers are called."""
import json
import os

from .common import *
from .roundtrip import FIXED

INV = ["TruncNeverValue", "InBounds", "PlaceRule", "ByteAlignedAnywhere", "TagRule", "HeaderRule",
       "NeverPanicOnHeader", "ReaderFailRule"]


def run_model(typeset, vlevel, mutkind, names_path, tag, tagvals="{2, 3, 9, 85, 255}", bases="{0}", extra=None,
              invariants=None):
    cfg = os.path.join(WORK, tag, "mc.cfg")
    os.makedirs(os.path.join(WORK, tag), exist_ok=True)
    consts = dict(FIXED)
    consts.update({"VLevel": vlevel, "TypeSet": typeset, "MutKind": mutkind, "TagVals": tagvals, "Bases": bases})
    if extra:
        consts.update(extra)
    write_cfg(cfg, consts, invariants=(invariants or INV) + ["EmitR"])
    r = tlc("MC_Reader", cfg, tag, env={"NAMES": names_path}, workers=8, timeout=3000)
    if not r.ok:
        raise ToolError(f"TLC did not complete on MC_Reader ({typeset}, {mutkind}): violated={r.violated} "
                        f"error={r.error}\n{r.out[-2500:]}")
    return r


def real_streams(beh, tag):
    """Real serialization of every distinct (key, v) of the behaviours."""
    uniq = {}
    for b in beh:
        uniq.setdefault((b["key"], json.dumps(b["v"])), None)
    ks = list(uniq)
    cases = [{"key": k, "cmd": "ser", "v": json.loads(v), "sink": {"kind": "direct"}} for k, v in ks]
    obs = replay(cases, tag + "_ser")
    for k, o in zip(ks, obs):
        uniq[k] = o["out"] if o and o.get("st") == "ok" else None
    return uniq


def apply_mut(m, bs):
    bs = list(bs)
    k = m["k"]
    if k == "trunc":
        return bs[:m["a"]]
    if k in ("tag", "minor", "byte"):
        off = m["a"]
        bs[off:off + len(m["c"])] = m["c"]
        return bs
    if k == "flip":
        bs[m["a"]] ^= (1 << m["b"])
        return bs
    if k == "flip0":
        bs[10:12] = [0, 0]
        bs[m["a"]] ^= (1 << m["b"])
        return bs
    if k == "revcookie":
        bs[0:8] = bs[0:8][::-1]
        return bs
    return bs


def norm_detail(st, detail):
    """Error payloads as byte lists / ints, comparable between specification and code."""
    return detail


def expect_detail(b, side, mutated):
    """The payload the specification predicts, with symbolic hash bytes read off the real mutated stream."""
    pred = b[side]
    st = pred["st"]
    d = pred["detail"]
    if st in ("WrongTypeHash",):
        return mutated[13:21]
    if st in ("WrongAlignHash",):
        return mutated[21:29]
    if st == "MagicCookieError":
        return mutated[0:8]
    if st == "InvalidTag":
        # the harness reports the usize payload as 8 native-endian bytes
        d = list(d) + [0] * (8 - len(d))
        return d
    return d


def outcome_ok(st):
    return st == "ok"


def check(pid, tier, seed, V, facts, names_path):
    quick = tier == "quick"
    tag = f"{pid.lower()}_{tier}"
    if pid == "C11":
        r = run_model("small1" if quick else "quick1", 1, "trunc", names_path, tag)
    elif pid == "C12":
        bases = "{" + ",".join(map(str, range(128))) + "}"
        r = run_model("small1" if quick else "quick1", 1, "place", names_path, tag, bases=bases)
    elif pid == "C15":
        tv = "{2, 3, 4, 9, 85, 128, 254, 255}" if quick else "{" + ",".join(map(str, range(256))) + "}"
        r = run_model("quick1" if quick else "full1", 1 if quick else 2, "tag", names_path, tag, tagvals=tv)
    elif pid == "C10":
        r = run_model("tiny" if quick else "small1", 1, "header", names_path, tag)
    elif pid == "C14":
        r = run_model("small1" if quick else "quick1", 1, "rfail", names_path, tag,
                      extra={"ReaderFaulty": True})
    V.add_tlc(r)
    beh = r.json_lines
    if not beh:
        raise ToolError("TLC printed no behaviours")
    streams = real_streams(beh, tag)
    if pid == "C14":
        return check_c14(tier, V, beh, streams, tag)
    cases, idx = [], []
    for i, b in enumerate(beh):
        real = streams[(b["key"], json.dumps(b["v"]))]
        if real is None:
            V.notes.append(f"{b['key']}: does not serialize (C01's finding), skipped")
            continue
        mutated = apply_mut(b["mut"], real)
        c = {"key": b["key"], "cmd": "de", "bytes": mutated, "base": b["base"]}
        if b["mut"]["k"] == "trunc" and b["base"] != 0:
            c["guard"] = True
        cases.append(c)
        idx.append((i, mutated))
    obs = replay(cases, tag)
    for (i, mutated), o in zip(idx, obs):
        b = beh[i]
        judge(pid, b, o, mutated, V)
    if pid == "C10" :
        minor_sweep(V, beh, streams, tag, quick)
    if pid == "C11":
        file_prefixes(V, tag, quick)
    V.cov["traces_validated_against_impl"] += len(cases)
    V.sample({"behaviour": {k: beh[0][k] for k in ("key", "v", "mut")},
              "predicted": {"full": beh[0]["full"]["st"], "eps": beh[0]["eps"]["st"]}})
    m = beh[len(beh) // 2]
    V.sample({"behaviour": {k: m[k] for k in ("key", "v", "mut")},
              "predicted": {"full": [m["full"]["st"], m["full"]["detail"]], "eps": [m["eps"]["st"], m["eps"]["detail"]]}})
    V.cov["rule"] = RULES[pid]
    V.cov["exhaustive"] = True


RULES = {
    "C10": "every single-bit flip of the 29 fixed header bytes, the reversed cookie and boundary minor versions, for every "
           "(type, value) of the universe, both modes; plus all 65536 minor versions on the real code (thorough) / a class "
           "sample (quick); distinct = (type, value, mutation)",
    "C11": "every cut point k in [0, len) of every stream of the universe, ε-copy at base 0 and at the base that ends the "
           "prefix on a PROT_NONE guard page; every strict prefix of stored files through load_full and mmap (outcome, and the "
           "system calls validated against Trace_Loader.tla: the mapping is exactly the prefix); distinct = (type, value, k, base) "
           "/ (loader, file, k)",
    "C12": "every base-address residue 0..127 for every (type, value) of the universe; distinct = (type, value, residue)",
    "C15": "every tag site (option / bound / control-flow byte tags, derived-enum word tags) of every (type, value) of the "
           "universe overwritten with foreign values; distinct = (type, value, site, tag value)",
}


def judge(pid, b, o, mutated, V):
    key = b["key"]
    m = b["mut"]
    V.count((key, json.dumps(b["v"]), json.dumps(m), b["base"]), True)
    rep = {"behaviour": {k: b[k] for k in ("key", "v", "mut", "base")},
           "predicted": {"full": b["full"], "eps": b["eps"]}, "observed": o}

    def viol(what, kind):
        V.violate(f"{pid}:{kind}:{key}", what, rep)
    if o is None or "error" in o:
        V.notes.append(f"not replayed: {key}: {o}")
        return
    if "abort" in o:
        if pid == "C11" and "guard" in json.dumps(o) or pid == "C11":
            viol(f"{key}: deserializing the prefix of length {m['a']} killed the process "
                 f"(read outside the prefix?): {o.get('stderr', '')[-160:]}", "abort")
        else:
            viol(f"{key}: process died on mutation {m}", "abort")
        return
    fu, ep = o.get("full"), o.get("eps")
    if pid == "C11":
        if fu["st"] == "ok":
            viol(f"{key}: full-copy deserialization of the {m['a']}-byte prefix of a {b['len']}-byte stream returned a value", "value")
        elif fu["st"] != "ReadError":
            viol(f"{key}: full-copy deserialization of a {m['a']}-byte prefix returned {fu['st']} {fu.get('msg', '')}, not a read error", "error")
        if ep["st"] == "ok":
            viol(f"{key}: ε-copy deserialization of the {m['a']}-byte prefix of a {b['len']}-byte stream returned a value", "value")
        elif ep["st"] != b["eps"]["st"]:
            V.notes.append(f"SPEC-DRIFT {key} cut {m['a']} base {b['base']}: ε-copy {ep['st']} vs specification {b['eps']['st']}")
    elif pid == "C12":
        want = b["eps"]["st"]
        if ep["st"] == "ok" and want != "ok":
            viol(f"{key}: ε-copy succeeded at base residue {m['a']} although a block is not on a multiple of its unit", "accepted")
        elif ep["st"] != "ok" and want == "ok":
            viol(f"{key}: ε-copy refused ({ep['st']} {ep.get('msg', '')}) at base residue {m['a']} where every block is aligned", "refused")
        elif ep["st"] not in ("ok", "AlignmentError"):
            viol(f"{key}: ε-copy at base residue {m['a']} ended with {ep['st']} {ep.get('msg', '')}, not an alignment error", "error")
        if ep["st"] == "ok":
            if ep["val"] != [b["v"]]:
                viol(f"{key}: ε-copy at base residue {m['a']} misread the value", "value")
            for g in ep["borrows"]:
                if g["len"] > 0 and g["mis"] != 0:
                    viol(f"{key}: a reference misaligned for its type was produced at base residue {m['a']}", "misaligned")
    elif pid == "C15":
        want = expect_detail(b, "full", mutated)
        for side, got in (("full", fu), ("eps", ep)):
            if got["st"] == "ok":
                viol(f"{key}: {side}: foreign tag {m['c']} at offset {m['a']} was mapped to a variant", "mapped")
            elif got["st"] != "InvalidTag":
                viol(f"{key}: {side}: foreign tag {m['c']} at offset {m['a']} gave {got['st']} {got.get('msg', '')}", "error")
            elif got["detail"] != want:
                viol(f"{key}: {side}: InvalidTag carries {got['detail']}, the tag written was {want}", "payload")
    elif pid == "C10":
        for side, got in (("full", fu), ("eps", ep)):
            pst = b[side]["st"]
            if got["st"] != pst:
                viol(f"{key}: {side}: header mutation {m} gave {got['st']} {got.get('msg', '')}, expected {pst}", "variant")
            elif pst == "ok":
                if got["val"] != [b["v"]]:
                    viol(f"{key}: {side}: lower minor version changed the value", "value")
            else:
                want = expect_detail(b, side, mutated)
                if got["detail"] != want:
                    viol(f"{key}: {side}: {pst} carries {got['detail']}, the offending value is {want}", "payload")


def file_prefixes(V, tag, quick):
    """C11 on real files: every strict prefix of a stored file, loaded fully (must be a read error) and memory-mapped
    (must fail, and the mapping must be exactly the prefix: validated on the system calls against Trace_Loader.tla)."""
    from . import loadertrace
    tys = [("vec64", 3), ("vec8", 5), ("string", 4), ("doc", 2)] if quick else \
          [("vec64", 3), ("vec64", 8), ("vec8", 5), ("vec8", 33), ("string", 4), ("doc", 2), ("doc", 5), ("canary", 3)]
    probe = [{"loader": "load_full", "flags": 0, "cause": "valid", "ty": ty, "n": n, "ops": [], "prior": "absent"} for ty, n in tys]
    lens = [o["file_len"] for o in replay(probe, tag + "_flen", sub="memcase")]
    cases = []
    for (ty, n), ln in zip(tys, lens):
        for k in range(ln):
            for loader in ("load_full", "mmap"):
                cases.append({"loader": loader, "flags": 0, "cause": "trunc", "ty": ty, "n": n, "ops": [], "prior": "absent", "cut": k})
    obs = replay(cases, tag + "_files", sub="memcase")
    for c, o in zip(cases, obs):
        name = f"{c['loader']} of the {c['cut']}-byte prefix of a stored {c['ty']} (n={c['n']})"
        V.count(("file", c["loader"], c["ty"], c["n"], c["cut"]), True)
        rep = {"case": c, "observed": o}
        if o is None or "error" in o:
            V.notes.append(f"not run: {c}")
            continue
        if "abort" in o:
            V.violate(f"C11:file-abort:{c['loader']}:{c['ty']}", f"{name}: the process died ({o.get('stderr', '')[-160:]})", rep)
            continue
        if o["file_len"] != c["cut"]:
            V.notes.append(f"harness: prefix of {c['cut']} bytes was not produced ({o['file_len']})")
            continue
        if o["res"] == "ok":
            V.violate(f"C11:file-value:{c['loader']}:{c['ty']}", f"{name} returned a value", rep)
        elif c["loader"] == "load_full" and o["res"] != "ReadError":
            V.violate(f"C11:file-error:{c['loader']}:{c['ty']}", f"{name} returned {o['res']} {o.get('msg') or ''}, not a read error", rep)
    V.cov["file_prefix_cases"] = len(cases)
    loadertrace.validate("C11", cases, tag + "_systrace", V)


def minor_sweep(V, beh, streams, tag, quick):
    """All 65536 minor versions against the real code (one stream per type in thorough, one type in quick)."""
    seen = set()
    cases, meta = [], []
    for b in beh:
        if b["key"] in seen:
            continue
        seen.add(b["key"])
        real = streams[(b["key"], json.dumps(b["v"]))]
        if real is None:
            continue
        step = 257 if quick else 1
        for mv in list(range(0, 65536, step)) + [65535]:
            bs = list(real)
            bs[10:12] = [mv & 255, mv >> 8]
            cases.append({"key": b["key"], "cmd": "de", "bytes": bs, "base": 0})
            meta.append((b, mv))
        if len(seen) >= (2 if quick else 4):
            break
    obs = replay(cases, tag + "_minor")
    for (b, mv), o in zip(meta, obs):
        V.count((b["key"], "minor", mv), True)
        for side in ("full", "eps"):
            got = o[side]
            if mv <= 1:
                if got["st"] != "ok" or got["val"] != [b["v"]]:
                    V.violate(f"C10:minor:{b['key']}", f"{b['key']}: {side}: minor version {mv} was not accepted", {"minor": mv, "observed": got})
            elif got["st"] != "MinorVersionMismatch" or got["detail"] != [mv]:
                V.violate(f"C10:minor:{b['key']}", f"{b['key']}: {side}: minor version {mv} gave {got['st']} {got.get('detail')}", {"minor": mv, "observed": got})
    V.cov["minor_versions_replayed"] = len(cases)


PATTERNS = [
    {"chunks": [1]},
    {"chunks": [2, 3, 5, 7, 11]},
    {"chunks": [1], "intr_every": 2},
    {"chunks": [4, 1, 1, 9], "intr_every": 3},
    {"chunks": [13], "intr_every": 7},
]


def check_c14(tier, V, beh, streams, tag):
    import random
    rnd = random.Random(V.seed)
    cases, meta = [], []
    seen = set()
    for b in beh:
        kv = (b["key"], json.dumps(b["v"]))
        if kv in seen:
            continue
        seen.add(kv)
        real = streams[kv]
        if real is None:
            continue
        pats = list(PATTERNS) + [{"chunks": [rnd.randint(1, 9) for _ in range(rnd.randint(1, 6))],
                                  "intr_every": rnd.choice([0, 0, 2, 5])}]
        for p in pats:
            cases.append({"key": b["key"], "cmd": "de", "bytes": real, "eps": False, "reader": p})
            meta.append((b, p, None))
        n = len(real)
        ks = range(n) if (tier == "thorough" or n <= 90) else sorted(set(list(range(0, 45)) + list(range(n - 30, n)) + [rnd.randrange(n) for _ in range(15)]))
        for k in ks:
            p = {"chunks": [3, 1, 8], "fail_at": k}
            cases.append({"key": b["key"], "cmd": "de", "bytes": real, "eps": False, "reader": p})
            meta.append((b, p, k))
    obs = replay(cases, tag)
    for (b, p, k), o in zip(meta, obs):
        key = b["key"]
        V.count((key, json.dumps(b["v"]), json.dumps(p)), True)
        rep = {"behaviour": {k2: b[k2] for k2 in ("key", "v")}, "reader": p, "observed": o}
        if o is None or "error" in o:
            continue
        if "abort" in o:
            V.violate(f"C14:abort:{key}", f"{key}: the process died with reader schedule {p}: {o.get('stderr', '')[-160:]}", rep)
            continue
        fu = o["full"]
        if k is None:
            if fu["st"] != "ok" or fu["val"] != [b["v"]]:
                V.violate(f"C14:fragment:{key}", f"{key}: reader fragmentation {p} changed the result: {fu['st']} {fu.get('msg', '')}", rep)
        else:
            if fu["st"] == "ok":
                V.violate(f"C14:value:{key}", f"{key}: a reader failing at byte {k} of {len(cases) and len(b.get('x', [])) or ''} still produced a value", rep)
            elif fu["st"] != "ReadError":
                V.violate(f"C14:error:{key}", f"{key}: a reader failing at byte {k} gave {fu['st']} {fu.get('msg', '')}", rep)
    V.cov["traces_validated_against_impl"] += len(cases)
    V.sample({"case": cases[0]["key"], "reader": meta[0][1]})
    V.sample({"case": cases[-1]["key"], "reader": meta[-1][1]})
    V.cov["rule"] = ("for every (type, value) of the universe: chunking patterns (1-byte, primes, seeded random, interleaved "
                     "Interrupted) and a reader failing at every byte position; distinct = (type, value, schedule)")
    V.cov["exhaustive"] = False
