"""C13 (writer failures) and C16 (slices / exact-size iterators serialize like the vector).

MC_Ser runs the serializer machine alone.  For C13 the sink is faulty: every
write_all call may be rejected after any prefix of its buffer, flush may fail
(all positions, by nondeterminism); TLC checks NoPanic / FaultIsError /
OutIsPrefix / SourceIntact on every state and prints every terminal state with
the fault that led to it; the harness replays exactly that fault (reject call n
after k bytes / fail flush) against the real serializer.  Schedules that only
split or retry writes (std::io::Write) are driven from the harness and the
recorded write() calls are validated against the machine in std grain."""
import json
import os

from .common import *
from .roundtrip import FIXED, resolve, bytes_match, first_diff

INV_C13 = ["NoPanic", "FaultIsError", "NoFaultNoError", "SourceIntact", "FakeBalanced", "OutIsPrefix", "PosCounts"]
INV_C16 = ["NoPanic", "NoFaultNoError", "LiarRefused", "SourceIntact", "FakeBalanced", "OutIsPrefix", "PosCounts"]


def run_model(typeset, vlevel, faulty, lies, names_path, tag, invs):
    cfg = os.path.join(WORK, tag, "mc.cfg")
    os.makedirs(os.path.join(WORK, tag), exist_ok=True)
    consts = dict(FIXED)
    consts.update({"VLevel": vlevel, "TypeSet": typeset, "Lies": lies, "SinkFaulty": faulty})
    write_cfg(cfg, consts, invariants=invs + ["EmitSer"])
    r = tlc("MC_Ser", cfg, tag, env={"NAMES": names_path}, workers=8, timeout=3000)
    if not r.ok:
        raise ToolError(f"TLC did not complete on MC_Ser ({typeset}): violated={r.violated} error={r.error}\n{r.out[-2500:]}")
    return r


def sink_of(fault):
    if fault[0] == "reject":
        return {"kind": "direct", "reject_call": fault[1], "partial": fault[2]}
    if fault[0] == "flush":
        return {"kind": "direct", "fail_flush": True}
    return None


def exp_bytes(b, facts, upto=None):
    fa = facts.get(b["key"]) or facts.get(b["rkey"])
    e = resolve(b["exp"], fa)
    return e


def check_c13(tier, seed, V, facts, names_path):
    typeset = {"quick": "fault-small", "thorough": "fault-quick"}[tier]
    vlevel = 1
    tag = f"c13_{tier}"
    r = run_model(typeset, vlevel, True, False, names_path, tag, INV_C13)
    V.add_tlc(r)
    beh = r.json_lines
    cases = []
    for b in beh:
        c = {"key": b["key"], "cmd": "ser", "v": b["v"], "ann": b["ann"]}
        s = sink_of(b["fault"])
        if s:
            c["sink"] = s
        else:
            c["sink"] = {"kind": "direct"}
        cases.append(c)
    obs = replay(cases, tag)
    # the same faults through serialize_with_schema (the same machine: schema mode only adds rows)
    scases = [dict(c, api="schema") for c in cases]
    sobs = replay(scases, tag + "_schema")
    for b, o in zip(beh, sobs):
        key = b["key"]
        if o is None or "error" in o or "abort" in o:
            continue
        s = o["ser"] if "ser" in o else o
        faulty = b["fault"][0] != "none"
        V.count((key, json.dumps(b["v"]), json.dumps(b["fault"]), "schema"), True)
        rep = {"behaviour": {k: b[k] for k in ("key", "v", "fault")}, "api": "serialize_with_schema", "observed": s}
        if faulty and s["st"] == "ok":
            V.violate(f"C13:schema-success:{key}", f"{key}: serialize_with_schema reported success although the sink "
                      f"{describe(b['fault'])}", rep)
        elif faulty and s["st"] == "panic":
            V.violate(f"C13:schema-panic:{key}", f"{key}: serialize_with_schema panicked when the sink {describe(b['fault'])}", rep)
    nfault = 0
    for b, c, o in zip(beh, cases, obs):
        key = b["key"]
        rep = {"behaviour": {k: b[k] for k in ("key", "v", "ann", "fault")}, "predicted": b["ser"], "observed": o}
        faulty = b["fault"][0] != "none"
        nfault += faulty
        V.count((key, json.dumps(b["v"]), json.dumps(b["fault"])), len(b["exp"]) > 37 + b["nameLen"])

        def viol(what, kind):
            V.violate(f"C13:{kind}:{key}", what, rep)
        if o is None or "error" in o:
            V.notes.append(f"not replayed: {key}: {o}")
            continue
        if "abort" in o:
            viol(f"serializing a value of {key} into a sink that {describe(b['fault'])} killed the process: "
                 f"{o.get('stderr', '')[-200:]}", "abort")
            continue
        s = o["ser"] if "ser" in o else o
        exp = exp_bytes(b, facts)
        if faulty:
            if s["st"] == "ok":
                viol(f"{key}: serialization reported success although the sink {describe(b['fault'])}", "success")
            elif s["st"] == "panic":
                viol(f"{key}: serialization panicked when the sink {describe(b['fault'])}: {s.get('msg')}", "panic")
            elif s["st"] != "WriteError":
                viol(f"{key}: serialization returned {s['st']} when the sink {describe(b['fault'])}", "error")
        else:
            if s["st"] != "ok":
                viol(f"{key}: serialization into a perfect sink ended with {s['st']} {s.get('msg', '')}", "nofault")
        got = s["out"]
        if len(got) > len(exp) or not bytes_match(exp[:len(got)], got):
            viol(f"{key}: the bytes the sink accepted are not a prefix of the fault-free output "
                 f"(first difference at {first_diff(exp, got)})", "prefix")
        if not faulty and s["st"] == "ok" and len(got) != len(exp):
            viol(f"{key}: fault-free output has {len(got)} bytes, specification {len(exp)}", "prefix")
        if o.get("src_freed", 0):
            viol(f"{key}: the borrowed source memory was freed by the serializer when the sink {describe(b['fault'])}", "freed")
        if o.get("src_same") is False:
            viol(f"{key}: the source value was modified by serialization", "changed")
    V.cov["traces_validated_against_impl"] += len(beh)
    V.cov["faulty_behaviours"] = nfault
    # schedules that merely split / retry: the real bytes must be the fault-free bytes
    split_schedules(beh, facts, V, tag)
    # file-backed sinks
    file_sinks(V, tag)
    V.sample({"behaviour": {k: beh[0][k] for k in ("key", "v", "fault")}, "predicted": beh[0]["ser"]["st"]})
    fb = [b for b in beh if b["fault"][0] == "reject"]
    if fb:
        m = fb[len(fb) // 2]
        V.sample({"behaviour": {k: m[k] for k in ("key", "v", "fault")}, "predicted": m["ser"]["st"],
                  "accepted_prefix_len": len(m["ser"]["out"])})
    V.cov["rule"] = ("TLC explores the serializer machine with a sink that may reject any write_all call after any prefix of "
                     "its buffer or fail on flush; every terminal state (type, value, fault) is replayed with exactly that "
                     "fault; distinct = distinct (type, value, fault); non-trivial = the value encodes to at least one byte")
    V.cov["universe"] = typeset
    V.cov["exhaustive"] = True
    V.assumptions += ["fault positions are exhaustive per enumerated stream; streams are those of the bounded universe",
                      "a wrongful free is observed by the tracking allocator (protected source block), not by ASan"]


def describe(fault):
    if fault[0] == "reject":
        return f"rejected write_all call #{fault[1]} after taking {fault[2]} byte(s)"
    if fault[0] == "flush":
        return "failed on flush"
    return "did not fail"


SPLITS = [
    {"kind": "std", "chunks": [1]},
    {"kind": "std", "chunks": [2, 3, 5, 7]},
    {"kind": "std", "chunks": [1], "intr_every": 2},
    {"kind": "std", "chunks": [3, 1, 4, 1, 5], "intr_every": 3},
    {"kind": "std", "intr_every": 5},
]


def split_schedules(beh, facts, V, tag):
    base = [b for b in beh if b["fault"][0] == "none" and b["ann"] < 0]
    cases, meta = [], []
    for b in base:
        for s in SPLITS:
            cases.append({"key": b["key"], "cmd": "ser", "v": b["v"], "ann": b["ann"], "sink": s})
            meta.append((b, s))
    # failures of a std sink: fail_at / zero_at at a few positions of each stream
    for b in base:
        n = len(b["exp"])
        for k in sorted({0, 1, 7, 8, 12, 13, 29, 36, 37, n // 2, n - 1}):
            if 0 <= k < n:
                for fld in ("fail_at", "zero_at"):
                    s = {"kind": "std", "chunks": [3], fld: k}
                    cases.append({"key": b["key"], "cmd": "ser", "v": b["v"], "ann": b["ann"], "sink": s})
                    meta.append((b, s))
        s = {"kind": "std", "fail_flush": True}
        cases.append({"key": b["key"], "cmd": "ser", "v": b["v"], "ann": b["ann"], "sink": s})
        meta.append((b, s))
    obs = replay(cases, tag + "_split")
    for (b, sched), o in zip(meta, obs):
        key = b["key"]
        rep = {"behaviour": {k: b[k] for k in ("key", "v")}, "sink": sched, "observed": o}
        V.count((key, json.dumps(b["v"]), json.dumps(sched)), True)
        if o is None or "error" in o:
            continue
        if "abort" in o:
            V.violate(f"C13:abort:{key}", f"{key}: process died with sink schedule {sched}", rep)
            continue
        s = o["ser"] if "ser" in o else o
        exp = exp_bytes(b, facts)
        failing = any(k in sched for k in ("fail_at", "zero_at", "fail_flush"))
        if not failing:
            if s["st"] != "ok" or not bytes_match(exp, s["out"]):
                V.violate(f"C13:split:{key}", f"{key}: a sink that only splits/retries writes ({sched}) got {s['st']} and "
                          f"{len(s['out'])} bytes instead of the {len(exp)} fault-free bytes", rep)
        else:
            if s["st"] != "WriteError":
                V.violate(f"C13:stdfail:{key}", f"{key}: std sink failure {sched} gave {s['st']} {s.get('msg', '')}", rep)
            if len(s["out"]) > len(exp) or not bytes_match(exp[:len(s["out"])], s["out"]):
                V.violate(f"C13:prefix:{key}", f"{key}: accepted bytes not a prefix under {sched}", rep)
        if o.get("src_freed", 0):
            V.violate(f"C13:freed:{key}", f"{key}: borrowed source memory freed under sink schedule {sched}", rep)
    V.cov["split_schedules_replayed"] = len(cases)


def file_sinks(V, tag):
    """store() onto /dev/full and into a directory path (buffered-file sink)."""
    out = harness(["filesinks"])
    res = json.loads(out)
    V.cov["file_sinks"] = res
    for r in res:
        V.count(("filesink", r["case"]), True)
        if r["st"] == "ok":
            V.violate(f"C13:store:{r['case']}", f"store() reported success on {r['case']}", r)
        if r["st"] == "panic":
            V.violate(f"C13:store:{r['case']}", f"store() panicked on {r['case']}: {r.get('msg')}", r)


# ---------------------------------------------------------------------------

def check_c16(tier, seed, V, facts, names_path):
    typeset = {"quick": "src-quick", "thorough": "src-full"}[tier]
    tag = f"c16_{tier}"
    r = run_model(typeset, 1 if tier == "quick" else 2, False, True, names_path, tag, INV_C16)
    V.add_tlc(r)
    beh = r.json_lines
    cases = [{"key": b["key"], "cmd": "ser", "v": b["v"], "ann": b["ann"]} for b in beh]
    obs = replay(cases, tag)
    # what the vector itself serializes to, and whether the source's bytes deserialize as the vector type
    vec_cases, de_cases, idx = [], [], []
    for i, (b, o) in enumerate(zip(beh, obs)):
        if b["ann"] < 0 and o and "ser" in o and o["ser"]["st"] == "ok":
            vec_cases.append({"key": b["rkey"], "cmd": "ser", "v": b["v"], "sink": {"kind": "direct"}})
            de_cases.append({"key": b["rkey"], "cmd": "de", "bytes": o["ser"]["out"], "base": 0})
            idx.append(i)
    vec_obs = replay(vec_cases, tag + "_vec")
    de_obs = replay(de_cases, tag + "_de")
    vec_by_i = dict(zip(idx, vec_obs))
    de_by_i = dict(zip(idx, de_obs))
    for i, (b, o) in enumerate(zip(beh, obs)):
        key = b["key"]
        rep = {"behaviour": {k: b[k] for k in ("key", "rkey", "v", "ann")}, "predicted": b["ser"], "observed": o}
        V.count((key, json.dumps(b["v"]), b["ann"]), True)

        def viol(what, kind):
            V.violate(f"C16:{kind}:{key}", what, rep)
        if o is None or "error" in o:
            V.notes.append(f"not replayed: {key}: {o}")
            continue
        if "abort" in o:
            viol(f"{key}: process died", "abort")
            continue
        s = o["ser"]
        if b["ann"] >= 0:
            n = len(b["v"]) if not key.startswith("G<") else len(b["v"][1])
            if s["st"] == "ok":
                viol(f"{key}: an iterator announcing {b['ann']} items and yielding {n} was serialized successfully", "liar")
            elif s["st"] != "LengthMismatch" or s["detail"] != [n, b["ann"]]:
                viol(f"{key}: lying iterator (announced {b['ann']}, yielded {n}) gave {s['st']} {s.get('detail')}", "liar")
            continue
        if s["st"] != "ok":
            viol(f"{key}: serialization ended with {s['st']} {s.get('msg', '')}", "ser")
            continue
        vo = vec_by_i.get(i)
        if vo and vo.get("st") == "ok":
            if vo["out"] != s["out"]:
                # struct-internal padding bytes may legitimately differ; compare through the specification's mask
                exp = exp_bytes(b, facts)
                mask_ok = len(vo["out"]) == len(s["out"]) and all(
                    e is None or x == y for e, x, y in zip(exp, vo["out"], s["out"])) and len(exp) == len(s["out"])
                if not mask_ok:
                    viol(f"{key}: stream differs from the stream of the corresponding vector "
                         f"({len(s['out'])} vs {len(vo['out'])} bytes)", "bytes")
        exp = exp_bytes(b, facts)
        if not bytes_match(exp, s["out"]):
            V.notes.append(f"SPEC-DRIFT {key}: bytes differ from the specification at {first_diff(exp, s['out'])}")
        d = de_by_i.get(i)
        if d and "error" in d:
            V.notes.append(f"not replayed (de): {b['rkey']}: {d}")
        elif d and "abort" not in d:
            want = [b["v"]]
            if d["full"]["st"] != "ok" or d["full"]["val"] != want:
                viol(f"{key}: its stream does not full-copy deserialize as {b['rkey']}: {d['full']['st']}", "defull")
            if d["eps"]["st"] != "ok" or d["eps"]["val"] != want:
                viol(f"{key}: its stream does not ε-copy deserialize as {b['rkey']}: {d['eps']['st']}", "deeps")
        if o.get("src_freed", 0):
            viol(f"{key}: the borrowed source memory was freed", "freed")
    V.cov["traces_validated_against_impl"] += len(beh)
    V.sample({"behaviour": {k: beh[0][k] for k in ("key", "rkey", "v", "ann")}})
    liars = [b for b in beh if b["ann"] >= 0]
    if liars:
        V.sample({"behaviour": {k: liars[0][k] for k in ("key", "v", "ann")}, "predicted": liars[0]["ser"]})
    V.cov["lying_iterator_cases"] = len(liars)
    V.cov["rule"] = ("TLC enumerates every slice / exact-size-iterator source (standalone and inside G<_>) of the universe with "
                     "its values and, for iterators, every announced length 0..3 different from the actual one; each is "
                     "replayed; distinct = (type, value, announced)")
    V.cov["universe"] = typeset
    V.cov["exhaustive"] = True
