"""C19: the aligned cursor behaves like the standard in-memory cursor.

Spec -> impl: TLC enumerates every history up to a depth over the alphabet of
MC_Cursor.tla (Cursor.tla = the reference semantics of std::io::Cursor<Vec<u8>>)
and prints it with result / contents / length / position after every step; each
history is replayed on AlignedCursor<A16>, AlignedCursor<A64> and
std::io::Cursor<Vec<u8>> (which validates the specification's reading of the
reference semantics).
Impl -> spec: long seeded random histories recorded from the real cursor are
validated by TLC against Trace_Cursor.tla (every event must be the
specification's action with the same result, length, position, contents)."""
import json
import os
import re

from .common import *


def spec_step(e):
    r = e["res"]
    return {"ok": r["ok"], "n": r["n"] if r["ok"] else 0, "data": r["data"]}, e["len"], e["pos"], e["bytes"]


def describe(h, upto):
    return " ; ".join(f"{e['op']}({e['arg']})" for e in h[:upto + 1])


def check(tier, seed, V):
    quick = tier == "quick"
    tag = f"c19_{tier}"
    os.makedirs(os.path.join(WORK, tag), exist_ok=True)
    configs = [(4, False), (3, True)] if quick else [(5, False), (4, True)]
    hists = []
    for depth, rich in configs:
        cfg = os.path.join(WORK, tag, f"mc_{depth}_{int(rich)}.cfg")
        write_cfg(cfg, {"Depth": depth, "Rich": rich}, invariants=["TypeOK", "LenMonotone", "GapZero", "ReadInBounds", "EmitH"])
        r = tlc("MC_Cursor", cfg, tag, workers=8, timeout=3000)
        if not r.ok:
            raise ToolError(f"TLC did not complete on MC_Cursor: violated={r.violated} error={r.error}\n{r.out[-2000:]}")
        V.add_tlc(r)
        hists += r.json_lines
    path = os.path.join(WORK, tag, "hist.ndjson")
    with open(path, "w") as f:
        for h in hists:
            f.write(json.dumps([{"op": e["op"], "arg": e["arg"]} for e in h]) + "\n")
    out = harness(["cursor", "replay", path], timeout=3000)
    lines = [json.loads(l) for l in out.splitlines() if l.strip()]
    if len(lines) != len(hists):
        raise ToolError("cursor replay: wrong number of results")
    drift_std = 0
    for h, o in zip(hists, lines):
        V.count(json.dumps([(e["op"], e["arg"]) for e in h]), True)
        for which in ("a16", "a64", "std"):
            got = o[which]
            for i, e in enumerate(h):
                exp_res, exp_len, exp_pos, exp_bytes = spec_step(e)
                bad = None
                if i >= len(got):
                    bad = "history stopped early"
                else:
                    g = got[i]
                    if "panic" in g["res"]:
                        bad = f"panicked: {g['res']['panic']}"
                    elif "state_panic" in g:
                        bad = f"reading the state panicked: {g['state_panic']}"
                    else:
                        gr = g["res"]
                        if gr["ok"] != exp_res["ok"]:
                            bad = f"returned {'Ok' if gr['ok'] else 'Err(' + gr.get('kind', '') + ')'}, expected {'Ok' if exp_res['ok'] else 'Err'}"
                        elif gr["ok"] and (gr["n"] != exp_res["n"] or (e["op"] == "read" and gr["data"] != exp_res["data"])):
                            bad = f"returned {gr['n']} {gr['data']}, expected {exp_res['n']} {exp_res['data']}"
                        elif g["len"] != exp_len or g["pos"] != exp_pos:
                            bad = f"length/position {g['len']}/{g['pos']}, expected {exp_len}/{exp_pos}"
                        elif g["bytes"] != exp_bytes:
                            bad = f"contents {g['bytes'][:24]}..., expected {exp_bytes[:24]}..."
                        elif g["mis"] != 0:
                            bad = "storage is not aligned to the alignment type"
                if bad:
                    if which == "std":
                        drift_std += 1
                        V.notes.append(f"SPEC-ERROR: std::io::Cursor disagrees with Cursor.tla on {describe(h, i)}: {bad}")
                    else:
                        kind = "panic" if "panic" in bad else "differs"
                        V.violate(f"C19:{kind}:{e['op']}", f"AlignedCursor<{which.upper()}> after {describe(h, i)}: {bad}",
                                  {"history": [{"op": x["op"], "arg": x["arg"]} for x in h[:i + 1]], "cursor": which,
                                   "predicted": h[i], "observed": got[i] if i < len(got) else None})
                    break
    if drift_std:
        raise ToolError(f"Cursor.tla misrepresents std::io::Cursor on {drift_std} histories (see notes)")
    V.cov["traces_validated_against_impl"] += len(hists)
    V.cov["histories_replayed"] = len(hists)
    V.sample({"history": [[e["op"], e["arg"]] for e in hists[len(hists) // 3]]})

    # extremes outside TLC's integers: AlignedCursor vs std directly
    ex = json.loads(harness(["cursor", "extremes"]))
    for r in ex:
        V.count("extreme:" + json.dumps(r["history"]), True)
        if not r["same"]:
            V.violate("C19:extreme:seek", f"AlignedCursor and std::io::Cursor differ on {r['history']}", r)
    V.cov["extreme_histories"] = len(ex)

    # impl -> spec
    nh, nops = (60, 400) if quick else (400, 1500)
    tpath = os.path.join(WORK, tag, "trace.ndjson")
    open(tpath, "w").write(harness(["cursor", "record", str(seed), str(nh), str(nops)], timeout=3000))
    acc, rej = validate_traces("Trace_Cursor", tpath, tag, V, "C19")
    V.cov["traces_validated_against_impl"] += acc
    V.cov["recorded_histories"] = nh
    V.cov["recorded_histories_accepted"] = acc
    V.cov["recorded_ops_per_history"] = nops
    V.cov["rule"] = ("all histories to the depth bound over the alphabet of MC_Cursor.tla (writes incl. empty, reads, seeks from "
                     "start/current/end incl. negative and past-the-end, set_position) replayed on AlignedCursor<A16>, <A64> and "
                     "std::io::Cursor; plus seeded random histories recorded from the real cursor and validated by TLC; "
                     "distinct = distinct operation sequence")
    V.cov["exhaustive"] = True
    V.assumptions += ["positions and lengths are small naturals in the specification; the 64-bit overflow arms of seek are "
                      "compared with std::io::Cursor directly (extreme_histories)",
                      "random histories keep positions below length+60 so that neither cursor allocates gigabytes"]


def split_runs(path, first="init"):
    """The trace file as a list of runs (each starts with an init event)."""
    runs, cur = [], []
    for line in open(path):
        if not line.strip():
            continue
        if re.search(r'"ev":\s*"%s"' % first, line) and cur:
            runs.append(cur)
            cur = []
        cur.append(line)
    if cur:
        runs.append(cur)
    return runs


def validate_traces(module, path, tag, V, pid, extra_cfg="", env=None):
    """Validate a concatenated trace file with TLC. On rejection: report the run that contains the first
    unmatched line as a violation, cut it out and validate the remainder, so that the rest is still checked.
    Returns (#runs accepted, #runs rejected)."""
    runs = split_runs(path)
    accepted = rejected = 0
    pending = runs
    rounds = 0
    while pending and rounds < 40:
        rounds += 1
        p = os.path.join(WORK, tag, f"{module}_{rounds}.ndjson")
        with open(p, "w") as f:
            for r in pending:
                f.writelines(r)
        cfg = os.path.join(WORK, tag, f"{module}.cfg")
        open(cfg, "w").write("INIT TInit\nNEXT TNext\nCHECK_DEADLOCK FALSE\nPOSTCONDITION Accepted\n" + extra_cfg)
        e = {"TRACE": p}
        if env:
            e.update(env)
        r = tlc(module, cfg, tag, env=e, workers=1, timeout=3000,
                java_opts=["-Xss1g", "-Dtlc2.tool.queue.IStateQueue=StateDeque"])
        V.add_tlc(r)
        if "Postcondition" not in r.out and r.error is None and r.violated is None:
            accepted += len(pending)
            break
        m = re.search(r'"TRACE-REJECTED at line",\s*(\d+)', r.out)
        if not m:
            raise ToolError(f"trace validation with {module} failed:\n{r.out[-3000:]}")
        line = int(m.group(1))
        # which run holds that line
        n = 0
        bad = None
        for i, run in enumerate(pending):
            if n < line <= n + len(run):
                bad = i
                break
            n += len(run)
        if bad is None:
            raise ToolError(f"trace rejected at line {line} beyond the trace")
        run = pending[bad]
        at = line - n - 1
        ev = json.loads(run[at])
        upto = [json.loads(x) for x in run[:at + 1]]
        what = f"recorded execution is not a behaviour of {module[6:]}.tla: event #{at} {json.dumps(ev)[:300]}"
        kind = "trace"
        if isinstance(ev.get("res"), dict) and "panic" in ev["res"]:
            kind = "panic"
        V.violate(f"{pid}:{kind}:{ev.get('op', ev.get('ev'))}", what, {"trace_prefix": upto[-30:], "init": json.loads(run[0])})
        rejected += 1
        accepted += bad
        pending = pending[bad + 1:]
    return accepted, rejected
