"""C17: a type wrongly declared zero-copy can never be serialized as raw memory.

MC_WrongZero enumerates (a) every wrongly declared zero-copy definition derived from the valid
zero-copy definitions of the universe (one field replaced by a vector / string / boxed slice / deep
struct / reference / option / raw pointer, repr(C) dropped, conflicting attribute) with the layer
that must reject it, and (b) runs the serializer machine on every context holding a hand-written
"zero-copy" type with a pointer inside, checking NoRawHandle and PanicsBeforeValue.  Every mutant
becomes a compile probe (must not compile, with and without #[derive(Copy)]); every context becomes
a run-time probe (must panic with header bytes only in the sink)."""
import importlib.util
import json
import os

from .common import *
from .roundtrip import FIXED
from . import probes as P

spec = importlib.util.spec_from_file_location("gen_universe", os.path.join(ROOT, "gen", "gen_universe.py"))
GU = importlib.util.module_from_spec(spec)
spec.loader.exec_module(GU)


def render_def(d, prefix, with_copy, only_def=True):
    """the Rust definition of a (mutant) definition, deriving Epserde"""
    tparams = d["tparams"]
    cparams = d["cparams"]
    Pm = {"types": tparams, "consts": [c["name"] for c in cparams], "prefix": prefix}
    tb = d.get("tbounds") or [""] * len(tparams)
    gd = ", ".join([t + (": " + b if b else "") for t, b in zip(tparams, tb)] + [f"const {c['name']}: {c['ck']}" for c in cparams])
    gd = f"<{gd}>" if gd else ""
    derives = "epserde::Epserde, Clone" + (", Copy" if with_copy else "")
    L = [f"#[derive({derives})]"]
    for r in d["reprs"]:
        L.append(f"#[repr({r})]")
    if d["zc"]:
        L.append("#[zero_copy]")
    if d["da"]:
        L.append("#[deep_copy]")
    def fields(fs, named, pub):
        p = "pub " if pub else ""
        if named:
            return "{ " + ", ".join(f"{p}{f['name']}: {GU.rust_type(f['g'], Pm)}" for f in fs) + " }"
        return "(" + ", ".join(f"{p}{GU.rust_type(f['g'], Pm)}" for f in fs) + ")"
    if d["dk"] == "struct":
        tup = d["fields"] and d["fields"][0]["name"] == "0"
        if not d["fields"]:
            L.append(f"pub struct {d['name']}{gd} {{}}")
        elif tup:
            L.append(f"pub struct {d['name']}{gd}{fields(d['fields'], False, True)};")
        else:
            L.append(f"pub struct {d['name']}{gd} {fields(d['fields'], True, True)}")
    else:
        vs = []
        for v in d["variants"]:
            if v["vk"] == "unit":
                vs.append(v["name"])
            elif v["vk"] == "tuple":
                vs.append(v["name"] + fields(v["fields"], False, False))
            else:
                vs.append(v["name"] + " " + fields(v["fields"], True, False))
        L.append(f"pub enum {d['name']}{gd} {{ " + ", ".join(vs) + " }")
    return "\n".join(L)


def write_defs(defs):
    """probes/src/defs.rs: the core definitions (types only)"""
    L = ["// @generated: the core definitions of spec/Universe.tla (types only)",
         "#![allow(dead_code)]", "use epserde::prelude::*;", ""]
    for d in defs:
        if d.get("mod"):
            continue
        L.append(render_def(d, "", d["zc"]))
        L.append("")
    path = os.path.join(P.PROBES, "src", "defs.rs")
    txt = "\n".join(L) + "\n"
    if not os.path.exists(path) or open(path).read() != txt:
        open(path, "w").write(txt)


def hw_expr(desc):
    """(type expression, expression building a value) for a context"""
    Pm = {"prefix": "probes::hw::"}
    k = desc["k"]
    if k == "slice":
        et = GU.rust_type(desc["elem"], Pm)
        return f"&[{et}]", f"let v: Vec<{et}> = probes::Mk::mk(); let x: &[{et}] = &v[..];"
    if k == "seriter":
        et = GU.rust_type(desc["elem"], Pm)
        return "SerIter<_, _>", f"let v: Vec<{et}> = probes::Mk::mk(); let x = SerIter::new(v.iter());"
    ty = rust_type_ctx(desc)
    return ty, f"let x: {ty} = probes::Mk::mk();"


def rust_type_ctx(d):
    k = d["k"]
    if k == "hw":
        return "probes::hw::HW"
    if k in ("struct", "enum"):
        args = [rust_type_ctx(tp["arg"]) for tp in d["tps"]]
        return "probes::defs::" + d["name"] + ("<" + ", ".join(args) + ">" if args else "")
    if k == "vec":
        return f"Vec<{rust_type_ctx(d['elem'])}>"
    if k == "boxslice":
        return f"Box<[{rust_type_ctx(d['elem'])}]>"
    if k == "array":
        return f"[{rust_type_ctx(d['elem'])}; {d['n']}]"
    if k == "tuple":
        return "(" + (rust_type_ctx(d["elem"]) + ",") * d["n"] + ")"
    if k == "option":
        return f"Option<{rust_type_ctx(d['elem'])}>"
    if k == "range":
        return f"core::ops::{d['rk']}<{rust_type_ctx(d['elem'])}>"
    return GU.rust_type(d)


def check(tier, seed, V, uni_path):
    tag = f"c17_{tier}"
    os.makedirs(os.path.join(WORK, tag), exist_ok=True)
    cfg = os.path.join(WORK, tag, "mc.cfg")
    consts = dict(FIXED)
    consts.update({"VLevel": 1})
    write_cfg(cfg, consts, invariants=["NoRawHandle", "PanicsBeforeValue", "EmitW"])
    r = tlc("MC_WrongZero", cfg, tag, workers=4, timeout=1200)
    if not r.ok:
        raise ToolError(f"TLC did not complete on MC_WrongZero: {r.violated} {r.error}\n{r.out[-1500:]}")
    V.add_tlc(r)
    mutants = [x for x in r.json_lines if x.get("rec") == "mutant"]
    hws = {}
    for x in r.json_lines:
        if x.get("rec") == "hw":
            hws[x["key"]] = x
    uni = json.load(open(uni_path))
    write_defs(uni["defs"])
    P.clean_bins("w_")
    P.clean_bins("h_")
    names = {}
    for i, m in enumerate(sorted(mutants, key=lambda m: (m["def"]["name"], m["tag"]))):
        for cp in (True, False):
            name = f"w_{i:04d}_{'c' if cp else 'n'}"
            src = ["// @generated from spec/Derive.tla WrongZero: " + m["def"]["name"] + " " + m["tag"],
                   "#![allow(dead_code, unused_imports)]", "use epserde::prelude::*;",
                   render_def(m["def"], "probes::defs::", cp), "fn main() {}"]
            open(os.path.join(P.PROBES, "src", "bin", name + ".rs"), "w").write("\n".join(src) + "\n")
            names[name] = (m, cp)
    # contexts with the hand-written type: regenerate descriptors from the keys TLC printed
    ctxs = hw_context_descs()
    hnames = {}
    for j, (key, desc) in enumerate(sorted(ctxs.items())):
        name = f"h_{j:03d}"
        ty, build = hw_expr(desc)
        src = [f"// @generated: serialize a value of {key} (HW = hand-written 'zero-copy' type with a pointer inside)",
               "#![allow(dead_code, unused_imports)]", "use epserde::prelude::*;",
               "fn main() {", "    " + build, "    probes::try_serialize(&x);", "}"]
        open(os.path.join(P.PROBES, "src", "bin", name + ".rs"), "w").write("\n".join(src) + "\n")
        hnames[name] = key
    res = P.build_probes("w_")
    res.update(P.build_probes("h_"))
    for name, (m, cp) in names.items():
        compiled, err = res.get(name, (None, "no outcome"))
        V.count((m["def"]["name"], m["tag"], cp), True)
        if compiled is None:
            V.notes.append(f"{name}: {err}")
        elif compiled:
            V.violate(f"C17:compiles:{m['def']['name']}:{m['tag']}",
                      f"the wrongly declared zero-copy type {m['def']['name']} ({m['tag']}, "
                      f"{'with' if cp else 'without'} #[derive(Copy)]) compiles; the {m['defence']} layer should reject it",
                      {"mutant": m, "with_copy": cp, "source": os.path.join(P.PROBES, "src", "bin", name + ".rs")})
    for name, key in hnames.items():
        compiled, err = res.get(name, (None, "no outcome"))
        V.count(("hw", key), True)
        pred = hws.get(key)
        rep = {"context": key, "predicted": pred, "compiled": compiled, "compile_error": err}
        if not compiled:
            # rejected at compile time: fine for the property
            continue
        out = sh([os.path.join(P.PROBES, "target", "debug", name)], timeout=60)
        rep["run"] = out.stdout.strip()[-200:]
        m = re.search(r"RESULT st=(\w+) outlen=(\d+) header=(\d+) raw=(\w+)", out.stdout)
        if not m:
            V.violate(f"C17:run:{key}", f"probe for {key} produced no result (exit {out.returncode})", rep)
            continue
        st, outlen, header = m.group(1), int(m.group(2)), int(m.group(3))
        if m.group(4) == "true":
            V.violate(f"C17:raw:{key}", f"{key}: the pointer held by the hand-declared zero-copy type was written to the "
                      f"stream ({st}, {outlen} bytes)", rep)
        elif st != "panic":
            V.violate(f"C17:serialized:{key}", f"a value of {key} (a hand-declared zero-copy type holding a pointer) was "
                      f"serialized: {st}, {outlen} bytes reached the writer (header is {header})", rep)
        elif outlen > header and desc_root_is_block(key):
            V.violate(f"C17:bytes:{key}", f"{key}: serialization panicked only after {outlen - header} bytes of the value had "
                      f"been written", rep)
    V.cov["traces_validated_against_impl"] += len(names) + len(hnames)
    V.cov["wrong_zero_mutants"] = len(mutants)
    V.cov["compile_probes"] = len(names)
    V.cov["runtime_contexts"] = len(hnames)
    V.sample({"mutant": mutants[0]["def"]["name"], "tag": mutants[0]["tag"], "defence": mutants[0]["defence"]})
    V.sample({"context": sorted(hnames.values())[0]})
    V.cov["rule"] = ("every WrongZero mutant of every valid zero-copy definition of the universe (field x replacement kind, "
                     "repr(C) dropped, conflicting attribute), each with and without #[derive(Copy)]; every context of "
                     "HwContexts; distinct = (definition, mutation, copy) / context")
    V.cov["exhaustive"] = True
    P.clean_bins("w_")
    P.clean_bins("h_")


def desc_root_is_block(key):
    """contexts whose root is the wrongly declared type or a zero-copy block of it: nothing of the value may be written"""
    return key == "HW" or key.startswith("(") or key.startswith("[") or key.startswith("RangeTo<")


def hw_context_descs():
    """The descriptors of Derive.tla HwContexts, mirrored here for rendering (keys are checked against TLC's)."""
    hw = {"k": "hw"}
    def G(a):
        return {"k": "struct", "name": "G", "tps": [{"arg": a}], "consts": []}
    rt = {"k": "range", "rk": "RangeTo", "elem": hw}
    ctx = [hw, {"k": "vec", "elem": hw}, {"k": "boxslice", "elem": hw}, {"k": "slice", "elem": hw}, {"k": "seriter", "elem": hw},
           {"k": "array", "n": 2, "elem": hw}, {"k": "array", "n": 0, "elem": hw}, {"k": "tuple", "n": 1, "elem": hw},
           {"k": "tuple", "n": 2, "elem": hw}, {"k": "option", "elem": hw}, rt, {"k": "vec", "elem": rt},
           {"k": "vec", "elem": {"k": "tuple", "n": 1, "elem": hw}}, {"k": "vec", "elem": {"k": "array", "n": 1, "elem": hw}},
           G(hw), G({"k": "vec", "elem": hw}), G({"k": "tuple", "n": 2, "elem": hw}),
           {"k": "vec", "elem": {"k": "vec", "elem": hw}}, {"k": "option", "elem": {"k": "vec", "elem": hw}}]
    out = {}
    for d in ctx:
        out[key_ctx(d)] = d
    return out


def key_ctx(d):
    k = d["k"]
    if k == "hw":
        return "HW"
    if k == "struct":
        return d["name"] + "<" + "".join(key_ctx(tp["arg"]) + "," for tp in d["tps"]) + ">"
    if k == "vec":
        return f"Vec<{key_ctx(d['elem'])}>"
    if k == "boxslice":
        return f"Box<[{key_ctx(d['elem'])}]>"
    if k == "slice":
        return f"&[{key_ctx(d['elem'])}]"
    if k == "seriter":
        return f"SerIter<{key_ctx(d['elem'])}>"
    if k == "array":
        return f"[{key_ctx(d['elem'])};{d['n']}]"
    if k == "tuple":
        return "(" + (key_ctx(d["elem"]) + ",") * d["n"] + ")"
    if k == "option":
        return f"Option<{key_ctx(d['elem'])}>"
    if k == "range":
        return f"{d['rk']}<{key_ctx(d['elem'])}>"
    raise ValueError(k)
