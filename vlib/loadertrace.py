"""System-call traces of the file loaders (implementation -> specification, Trace_Loader.tla).

The harness (`memcase` command with VERIF_MARKS=1) runs under `strace -f`; this module turns the strace
log into the event vocabulary of Trace_Loader.tla.  The translation is mechanical: it selects the calls
that touch the case file (by path / file descriptor) or a region that a selected mmap returned (by
address), merges consecutive write() / read() calls on the case file, renames addresses to small
integers by first appearance, and copies the harness's markers.  It does not reconstruct any state.
"""
import json
import re

MARK = "/verif-mark/"
LINE = re.compile(r"^(\d+)\s+(\w+)\((.*)\)\s+=\s+(0x[0-9a-f]+|-?\d+|\?)(.*)$")
UNFINISHED = re.compile(r"^(\d+)\s+(\w+)\((.*) <unfinished \.\.\.>$")
RESUMED = re.compile(r"^(\d+)\s+<\.\.\. (\w+) resumed>(.*)$")
SYSCALLS = "openat,statx,newfstatat,write,read,mmap,munmap,madvise,mprotect,close,pread64,pwrite64,ftruncate,mremap"


def _lines(path):
    """strace -f lines with unfinished / resumed pairs joined"""
    pending = {}
    for raw in open(path, errors="replace"):
        raw = raw.rstrip("\n")
        m = UNFINISHED.match(raw)
        if m:
            pending[m.group(1)] = f"{m.group(1)} {m.group(2)}({m.group(3)}"
            continue
        m = RESUMED.match(raw)
        if m and m.group(1) in pending:
            raw = pending.pop(m.group(1)) + m.group(3)
        yield raw


def _int(x):
    return int(x, 16) if x.startswith("0x") else int(x)


def parse(strace_path, case_file_marker, cases, obs):
    """-> list of events (dicts) for Trace_Loader.tla.
    case_file_marker: substring identifying the case file's path; cases[i] / obs[i]: the harness input and output."""
    ev = []
    phase = "idle"        # idle | pre | store | mutate | load | after
    fds = {}              # pid-agnostic (threads share the table): fd -> "case" while open
    created_fd = None
    kept_addrs = {}       # real address -> small id (per case)
    main_pid = None
    lastrw = None

    def push(e):
        nonlocal lastrw
        lastrw = None
        ev.append(e)

    for raw in _lines(strace_path):
        m = LINE.match(raw)
        if not m:
            continue
        pid, name, args, ret, tail = m.groups()
        if main_pid is None:
            main_pid = pid
        ok = not ret.startswith("-")
        # ---- markers
        if name == "statx" and MARK in args:
            mk = args.split(MARK, 1)[1].split('"', 1)[0]
            kind, _, rest = mk.partition(":")
            if kind == "case":
                i = int(rest)
                c, o = cases[i], obs[i]
                kept_addrs = {}
                fds = {}
                phase = "pre"
                push({"ev": "case", "i": i, "loader": c["loader"], "flags": c.get("flags", 0), "cause": c.get("cause", "valid"),
                      "prior": c.get("prior", "absent"), "flen": o["file_len"] if o else 0, "canary": c.get("ty") == "canary",
                      "ty": c.get("ty")})
            elif kind == "store":
                phase = "store"
            elif kind == "stored":
                phase = "mutate"
                push({"ev": "stored", "slen": int(rest)})
            elif kind == "load":
                phase = "load"
                push({"ev": "load"})
            elif kind == "loaded":
                phase = "after"
                # one marker, two events: the loader returned (the model's loader must be able to have returned
                # here) / what it returned
                push({"ev": "returned"})
                push({"ev": "loaded", "res": rest})
            elif kind == "op":
                push({"ev": "op", "op": rest})
            elif kind == "sdrop":
                if phase in ("load", "after"):
                    push({"ev": "sdrop"})
            elif kind == "dropped":
                push({"ev": "dropped"})
                phase = "idle"
            elif kind in ("halloc", "hfree"):
                if phase in ("load", "after"):
                    a, size, align = (int(x) for x in rest.split(":"))
                    if kind == "halloc":
                        kept_addrs.setdefault(a, len(kept_addrs) + 1)
                    if a in kept_addrs:
                        push({"ev": kind, "addr": kept_addrs[a], "size": size, "align": align})
            continue
        if phase in ("idle", "pre", "mutate"):
            # (descriptors opened here are closed here)
            continue
        # ---- the case file
        if name == "openat" and case_file_marker in args:
            flags = args.rsplit('"', 1)[1]
            if phase == "store":
                if "O_CREAT" in flags and ok:
                    created_fd = ret
                    push({"ev": "create", "trunc": "O_TRUNC" in flags})
            else:
                if ok:
                    fds[ret] = "case"
                push({"ev": "open", "ok": ok, "rdonly": "O_RDONLY" in flags})
            continue
        if name == "statx" and case_file_marker in args and phase in ("load", "after"):
            size = 0
            sm = re.search(r"stx_size=(\d+)", args)
            if sm:
                size = int(sm.group(1))
            push({"ev": "stat", "ok": ok, "size": size})
            continue
        if name == "write" and phase == "store" and created_fd is not None and args.split(",", 1)[0] == created_fd:
            n = _int(ret) if ok else 0
            if lastrw is not None and lastrw["ev"] == "fwrite":
                lastrw["n"] += n
            else:
                e = {"ev": "fwrite", "n": n}
                push(e)
                lastrw = e
            continue
        if name == "close":
            fd = args.strip()
            if phase == "store" and fd == created_fd:
                created_fd = None
            elif fds.get(fd) == "case":
                del fds[fd]
                push({"ev": "close"})
            continue
        if phase not in ("load", "after"):
            continue
        if name in ("read", "pread64") and fds.get(args.split(",", 1)[0]) == "case":
            want = int(args.rsplit(",", 1)[1])
            got = _int(ret) if ok else 0
            if lastrw is not None and lastrw["ev"] == "read":
                # read_exact / BufReader loops: a final read of 0 bytes at end of file adds nothing
                lastrw["want"] += want if got > 0 else 0
                lastrw["got"] += got
            else:
                e = {"ev": "read", "want": want, "got": got, "ok": ok}
                push(e)
                lastrw = e
            continue
        if name == "mmap" and ok:
            a = [x.strip() for x in args.split(",")]
            length, prot, mflags, fd, off = int(a[1]), a[2], a[3], a[4], a[5]
            file_backed = fds.get(fd) == "case"
            anon_plain = set(mflags.split("|")) == {"MAP_PRIVATE", "MAP_ANONYMOUS"} and prot == "PROT_READ|PROT_WRITE" \
                and phase == "load" and pid == main_pid
            if file_backed or anon_plain:
                real = _int(ret)
                kept_addrs.setdefault(real, len(kept_addrs) + 1)
                push({"ev": "map", "addr": kept_addrs[real], "len": length, "anon": not file_backed,
                      "prot": "rw" if "PROT_WRITE" in prot else "r", "off": _int(off), "shared": "MAP_SHARED" in mflags})
            continue
        if name in ("munmap", "madvise", "mprotect"):
            a = [x.strip() for x in args.split(",")]
            real = _int(a[0])
            if real not in kept_addrs:
                continue
            length = int(a[1])
            if name == "munmap":
                push({"ev": "unmap", "addr": kept_addrs[real], "len": length, "ok": ok})
            elif name == "madvise":
                push({"ev": "advise", "addr": kept_addrs[real], "len": length, "advice": a[2].replace("MADV_", ""), "ok": ok})
            else:
                push({"ev": "protect", "addr": kept_addrs[real], "len": length, "prot": "rw" if "PROT_WRITE" in a[2] else "r", "ok": ok})
            continue
    return ev


# ---------------------------------------------------------------------------------------------------
# recording and validation
# which rejected events are whose alarm (anything else is reported as SPEC-DRIFT: the model's grain of
# system calls drifted, no property is known to be broken)
WHAT = {
    "create": "store() did not open the file with O_CREAT | O_TRUNC",
    "fwrite": "store() wrote to the file outside the store step",
    "stored": "the bytes written by store() are not the file's content (stale tail of an older, longer file / short write)",
    "stat": "the loader's metadata() call does not see the file's length",
    "open": "the loader did not open the file read-only / in the model's order",
    "map": "the mapping created by the loader has another length / protection / backing than the model's "
           "(load_mmap: anonymous, read-write, file length rounded up to 16; mmap: the file itself, read-only, exactly its length)",
    "halloc": "the heap region allocated by load_mem has another size / alignment than the model's (file length rounded up to 64, aligned 64)",
    "read": "the loader did not read exactly the file's bytes into the region",
    "protect": "load_mmap did not make exactly its region read-only",
    "returned": "the loader returned where the model's loader cannot have returned: on its error path the region it had "
                "created (heap block or mapping) was not released",
    "loaded": "the loader's result is not the model's for this file",
    "unmap": "a munmap() of the backing region that is not the model's single release (other range, second release, or before the structure was dropped)",
    "hfree": "a dealloc() of the backing region that is not the model's single release (other layout, second release, or before the structure was dropped)",
    "sdrop": "the structure was dropped when the model does not allow it (after its backing region, or twice)",
    "dropped": "after the drop (or the failed load) the region created by the loader is still live",
    "op": "an owner operation is not possible in the model's state",
    "advise": "the madvise() calls are not the ones of the flag table",
}
MINE = {
    "C08": {"create", "fwrite", "stored", "stat", "open", "map", "halloc", "read", "protect", "loaded"},
    "C09": {"returned", "unmap", "hfree", "sdrop", "dropped", "op"},
    "C11": {"map", "halloc", "read", "stat", "loaded"},
}
INVARIANT_OF = {"NoLeakOnFailure": "C09", "ReleasedAtMostOnce": "C09", "StructureBeforeBackend": "C09", "ReleasedWhenDropped": "C09"}


def _pad(v, u):
    return (u - v % u) % u


def semantic(run, pid):
    """What a recorded run says about property `pid`, judged on the events' own content and on order-free counts -
    never on the grain or order of calls that a correct loader is free to choose.  TLC's rejection says that the run
    is not a behaviour of the specification and where; whether that is this property's matter is decided here.
    -> list of (kind, text)"""
    c = run[0]
    loader, flen, cause = c["loader"], c["flen"], c["cause"]
    out = []
    ev = lambda k: [e for e in run if e["ev"] == k]
    idx = lambda k: [i for i, e in enumerate(run) if e["ev"] == k]
    res = (ev("loaded") or [{"res": None}])[0]["res"]
    created = [(i, e) for i, e in enumerate(run) if e["ev"] in ("map", "halloc")]
    releases = [(i, e) for i, e in enumerate(run) if e["ev"] in ("unmap", "hfree")]
    if pid == "C08":
        st = ev("stored")
        if st and sum(e["n"] for e in ev("fwrite")) != st[0]["slen"]:
            out.append(("stored", f"store() wrote {sum(e['n'] for e in ev('fwrite'))} bytes but the file is {st[0]['slen']} bytes long "
                                  "afterwards (an older, longer file was not truncated / a short write)"))
        if cause == "valid":
            for _, e in created:
                if e["ev"] == "map" and loader == "load_mmap" and (e["len"] != flen + _pad(flen, 16) or not e["anon"]):
                    out.append(("map", f"load_mmap created a mapping of {e['len']} bytes (anonymous: {e['anon']}) for a {flen}-byte file"))
                if e["ev"] == "map" and loader == "mmap" and (e["len"] != flen or e["anon"] or e["prot"] != "r" or e["off"] != 0):
                    out.append(("map", f"mmap mapped {e['len']} bytes (prot {e['prot']}, offset {e['off']}, anonymous: {e['anon']}) of a {flen}-byte file"))
                if e["ev"] == "halloc" and loader == "load_mem" and (e["size"] != flen + _pad(flen, 64) or e["align"] != 64):
                    out.append(("halloc", f"load_mem allocated {e['size']} bytes aligned {e['align']} for a {flen}-byte file"))
            rd = ev("read")
            if loader in ("load_mem", "load_mmap") and rd and sum(e["got"] for e in rd) != flen:
                out.append(("read", f"{loader} read {sum(e['got'] for e in rd)} bytes of a {flen}-byte file"))
            if res is not None and res != "ok":
                out.append(("loaded", f"loading a valid file failed with {res}"))
    elif pid == "C11":
        if cause == "trunc":
            for _, e in created:
                if e["ev"] == "map" and loader == "mmap" and e["len"] != flen:
                    out.append(("map", f"mmap mapped {e['len']} bytes of a truncated file of {flen} bytes: what lies beyond the prefix is read"))
            if res == "ok" and loader in ("load_full", "mmap"):
                out.append(("loaded", f"{loader} of a truncated file of {flen} bytes returned a value"))
    elif pid == "C09":
        ret = idx("returned")
        drp = idx("dropped")
        def released_before(i_created, addr, limit):
            return [j for j, r in releases if r["addr"] == addr and i_created < j < limit]
        for i, e in created:
            n_all = [j for j, r in releases if r["addr"] == e["addr"] and j > i]
            if res is not None and res != "ok":
                if ret and not released_before(i, e["addr"], ret[0]):
                    out.append(("returned", f"the failed load ({res}) returned without releasing the region it had created "
                                            f"({e['ev']} of {e.get('len', e.get('size'))} bytes)"))
            else:
                if drp and not released_before(i, e["addr"], drp[-1]):
                    out.append(("dropped", "the region created by the loader is still there after the case was dropped"))
            if len(n_all) > 1:
                out.append((run[n_all[1]]["ev"], "the backing region was released twice"))
            for j in n_all[:1]:
                r = run[j]
                if r.get("len", r.get("size")) != e.get("len", e.get("size")):
                    out.append((r["ev"], f"the region was created with {e.get('len', e.get('size'))} bytes and released with {r.get('len', r.get('size'))}"))
                sd = idx("sdrop")
                if c.get("canary") and res == "ok" and (not sd or sd[0] > j):
                    out.append(("sdrop", "the backing region was released before the structure was dropped"))
        if c.get("canary") and res == "ok" and len(idx("sdrop")) != 1 and drp:
            out.append(("sdrop", f"the structure's Drop ran {len(idx('sdrop'))} times"))
    return out


def record(cases, tag):
    """Run the cases under strace; -> (events, observations)."""
    import os
    import shutil
    from .common import WORK, BIN, sh, ToolError
    if shutil.which("strace") is None:
        raise ToolError("strace is not installed")
    d = os.path.join(WORK, tag)
    os.makedirs(d, exist_ok=True)
    cpath = os.path.join(d, "lt_cases.ndjson")
    with open(cpath, "w") as f:
        for i, c in enumerate(cases):
            f.write(json.dumps(dict(c, i=i)) + "\n")
    st = os.path.join(d, "strace.out")
    env = dict(os.environ, VERIF_MARKS="1")
    p = sh(["strace", "-f", "-e", "trace=" + SYSCALLS, "-o", st, BIN, "memcase", cpath], timeout=3000, env=env)
    obs = [None] * len(cases)
    for line in p.stdout.splitlines():
        try:
            r = json.loads(line)
        except ValueError:
            continue
        if "i" in r and "obs" in r:
            obs[r["i"]] = r["obs"]
    if p.returncode != 0 and all(o is None for o in obs):
        raise ToolError(f"strace/harness failed ({p.returncode}):\n{p.stderr[-2000:]}")
    ev = parse(st, "/case_", cases, obs)
    try:
        os.remove(st)
    except OSError:
        pass
    return ev, obs


def split_cases(events):
    runs, cur = [], []
    for e in events:
        if e["ev"] == "case" and cur:
            runs.append(cur)
            cur = []
        cur.append(e)
    if cur:
        runs.append(cur)
    return runs


def validate(pid, cases, tag, V, known_skip=None):
    """Record the cases and validate the events against Trace_Loader.tla; rejected cases are reported (as this
    property's violation if the rejected event is one of its kinds) and cut out, the rest is still checked."""
    import os
    from .common import WORK, tlc, write_cfg, ToolError
    import subprocess
    try:
        probe = subprocess.run(["strace", "-o", "/dev/null", "true"], capture_output=True, timeout=60)
        usable = probe.returncode == 0
    except (OSError, subprocess.TimeoutExpired):
        usable = False
    if not usable:
        # (no ptrace in this environment: nothing is claimed from this part, and nothing can alarm)
        V.notes.append("strace cannot trace in this environment: the system-call validation against Trace_Loader.tla was skipped")
        V.cov["systrace_cases"] = 0
        return 0, 0
    events, obs = record(cases, tag)
    runs = [r for r in split_cases(events) if r and r[0]["ev"] == "case"]
    # a case the harness did not finish (the process died) has no complete run: judged by the replay, not here
    runs = [r for r in runs if r[-1]["ev"] == "dropped"]
    mine = MINE[pid]
    consts = {"MaxSteps": 64, "BugNoTruncate": False, "BugLeakOnError": False}
    cfg = os.path.join(WORK, tag, "tloader.cfg")
    write_cfg(cfg, consts, init="TInit", next_="TNext",
              invariants=["Furthest"],
              extra="POSTCONDITION Accepted")
    accepted = rejected = 0
    pending = runs
    rounds = 0
    nev = sum(len(r) for r in runs)
    while pending and rounds < 40:
        rounds += 1
        p = os.path.join(WORK, tag, f"tloader_{rounds}.ndjson")
        with open(p, "w") as f:
            for r in pending:
                for e in r:
                    f.write(json.dumps(e) + "\n")
        r = tlc("Trace_Loader", cfg, tag, env={"TRACE": p}, workers=1, timeout=3000,
                java_opts=["-Xss1g", "-Dtlc2.tool.queue.IStateQueue=StateDeque"])
        V.add_tlc(r)
        line = None
        inv = None
        if r.violated:
            inv = r.violated if isinstance(r.violated, str) else str(r.violated)
            ls = re.findall(r"/\\ l = (\d+)", r.out)
            if not ls:
                raise ToolError(f"invariant {inv} violated during loader trace validation, no position:\n{r.out[-2000:]}")
            line = int(ls[-1]) - 1          # the state after consuming line l-1
        elif "TRACE-REJECTED" in r.out:
            line = int(re.search(r'"TRACE-REJECTED at line",\s*(\d+)', r.out).group(1))
        else:
            if r.error:
                raise ToolError(f"loader trace validation failed: {r.error}\n{r.out[-2000:]}")
            accepted += len(pending)
            break
        n = 0
        bad = None
        for i, run in enumerate(pending):
            if n < line <= n + len(run):
                bad = i
                break
            n += len(run)
        if bad is None:
            raise ToolError(f"loader trace rejected at line {line}, beyond the trace")
        run = pending[bad]
        at = line - n - 1
        e = run[at]
        c = run[0]
        name = f"{c['loader']}({c['ty']}, flags={c['flags']}, {c['cause']}, file length {c['flen']})"
        rep = {"case": cases[c["i"]], "events": run, "rejected_event_index": at, "observed": obs[c["i"]]}
        if inv is not None:
            owner_pid = INVARIANT_OF.get(inv.split()[0], None)
            what = f"{name}: the recorded system calls drive the model into a state violating {inv}"
            if owner_pid == pid:
                V.violate(f"{pid}:systrace-{inv}:{c['loader']}:{c['cause']}", what, rep)
            else:
                V.notes.append(f"SPEC-DRIFT {what} (not this property's)")
        else:
            sem = semantic(run, pid)
            if sem:
                for kind, text in sem:
                    V.violate(f"{pid}:systrace-{kind}:{c['loader']}:{c['cause']}",
                              f"{name}: {text} (the recorded calls are not a behaviour of Trace_Loader.tla: first "
                              f"unexplained event #{at}: {json.dumps(e)[:160]})", rep)
            else:
                V.notes.append(f"SPEC-DRIFT {name}: rejected at `{e['ev']}`, nothing this property speaks of is wrong in the run: "
                               f"{json.dumps(e)[:140]}")
        rejected += 1
        accepted += bad
        pending = pending[bad + 1:]
    V.cov["systrace_cases"] = len(runs)
    V.cov["systrace_cases_accepted"] = accepted
    V.cov["systrace_events"] = nev
    V.cov["traces_validated_against_impl"] += accepted
    return accepted, rejected
