"""Payload damage (beyond the listed properties; DESIGN section 10.1).

MC_Reader with MutKind = "payload": after the serializer machine, any single byte after the header is
replaced by a boundary value (0, 1, 2, 128, 255, byte + 1) and both reader machines run.  Design level: TLC
checks PayloadOutcomes / PayloadAgree / InBounds and classifies every behaviour; the ones in which the
code hands out memory that is not a value of its type (a bool that is not 0 / 1, an invalid char, a zero
NonZero, an enum tag without variant, a &str that is not UTF-8) end in the outcome "ub" and are *not*
replayed.  Every other behaviour is replayed on the real stream with the same byte replaced and the
outcome of both real deserializers compared with the machine's.

Nothing here is a listed property: the result is a report (work/payload_report.json and the summary in
DESIGN.md), it never raises a VIOLATION."""
import collections
import json
import os

from .common import *
from .readers import run_model, real_streams, apply_mut, INV


def match_val(pred, obs):
    """predicted value against observed one; a symbolic byte (>= 256: padding inside a zero-copy value) matches anything"""
    if isinstance(pred, int) and pred >= 256:
        return True
    if isinstance(pred, list) and isinstance(obs, list):
        return len(pred) == len(obs) and all(match_val(p, o) for p, o in zip(pred, obs))
    return pred == obs


def run(tier, names_path):
    quick = tier == "quick"
    tag = f"payload_{tier}"
    os.makedirs(os.path.join(WORK, tag), exist_ok=True)
    r = run_model("small1" if quick else "quick1", 1, "payload", names_path, tag,
                  invariants=INV + ["PayloadOutcomes", "PayloadAgree"])
    beh = r.json_lines
    nbeh_all = len(beh)
    import random
    rnd = random.Random(12345)
    is_huge = lambda b: any(b[sd]["st"] == "panic" and b[sd]["detail"] == ["capacity"] for sd in ("full", "eps"))
    # a damaged length word that asks for 2^24 items and more usually ends in a failed allocation, i.e. a dead process:
    # replaying all of them means restarting the harness thousands of times; a sample shows the three real outcomes
    huge = [b for b in beh if is_huge(b)]
    rest = [b for b in beh if not is_huge(b)]
    nhuge_all = len(huge)
    huge = rnd.sample(huge, min(len(huge), 120 if quick else 600))
    if quick and len(rest) > 30000:
        rest = rnd.sample(rest, 30000)
    beh = rest + huge
    streams = real_streams(beh, tag)
    cases, idx = [], []
    ub = collections.Counter()
    other = collections.Counter()
    NOREPLAY = ("ub", "hang", "ok-huge")
    for i, b in enumerate(beh):
        fu, ep = b["full"]["st"], b["eps"]["st"]
        if fu == "ub" or ep == "ub":
            ub[(b["key"], "full" if fu == "ub" else "eps")] += 1
        for side, st in (("full", fu), ("eps", ep)):
            if st in ("hang", "ok-huge"):
                other[(st, b["key"], side)] += 1
        real = streams[(b["key"], json.dumps(b["v"]))]
        if real is None:
            continue
        mutated = apply_mut(b["mut"], real)
        cases.append({"key": b["key"], "cmd": "de", "bytes": mutated, "base": 0, "full": fu not in NOREPLAY, "eps": ep not in NOREPLAY})
        idx.append(i)
    obs = replay(cases, tag)
    agree = collections.Counter()
    diffs = []
    for i, c, o in zip(idx, cases, obs):
        b = beh[i]
        if o is None or "error" in o:
            agree["not-run"] += 1
            continue
        if "abort" in o:
            huge = any(b[sd]["st"] == "panic" and b[sd]["detail"] == ["capacity"] for sd in ("full", "eps"))
            agree["abort:huge-length" if huge else "abort:UNEXPECTED"] += 1
            if huge:
                continue
            diffs.append({"key": b["key"], "v": b["v"], "mut": b["mut"], "predicted": [b["full"]["st"], b["eps"]["st"]],
                          "observed": "process died: " + o.get("stderr", "")[-200:]})
            continue
        for side in ("full", "eps"):
            if not c[side]:
                agree[f"{side}:ub-not-replayed"] += 1
                continue
            want, got = b[side]["st"], o[side]["st"]
            if want == "panic" and b[side]["detail"] == ["capacity"]:
                # a length word with a set high byte: Vec::with_capacity(len) before any bounds check. What happens next
                # is the allocator's business: capacity-overflow panic, allocation failure (process abort, seen
                # above as `abort`), or a lazily committed allocation and then a read error
                want = "huge"
                same = got in ("panic", "ReadError")
                agree[f"{side}:huge-length:{got}"] += 1
                continue
            same = want == got
            if same and want == "ok":
                wv = b[side]["val"]
                same = match_val(wv, o[side].get("val"))
            if same and want == "InvalidTag":
                same = True
            agree[f"{side}:{want}:{'same' if same else 'DIFF'}"] += 1
            if not same and len(diffs) < 200:
                diffs.append({"key": b["key"], "v": b["v"], "mut": b["mut"], "side": side,
                              "predicted": b[side], "observed": {k: o[side].get(k) for k in ("st", "val", "msg", "detail")}})
    rep = {"tier": tier, "states": r.distinct, "behaviours": nbeh_all, "huge_length_behaviours": nhuge_all,
           "sampled_for_replay": len(beh), "replayed": len(cases),
           "outcomes": dict(sorted(agree.items())),
           "ub_by_type_and_mode": sorted([{"type": k[0], "mode": k[1], "mutations": n} for k, n in ub.items()],
                                         key=lambda x: -x["mutations"])[:80],
           "ub_total": sum(ub.values()),
           "not_replayed_hang_or_huge": sorted([{"outcome": k[0], "type": k[1], "mode": k[2], "mutations": n} for k, n in other.items()],
                                               key=lambda x: -x["mutations"])[:40],
           "differences": diffs}
    json.dump(rep, open(os.path.join(WORK, "payload_report.json"), "w"), indent=1)
    ndiff = sum(n for k, n in agree.items() if k.endswith("DIFF")) + agree["abort:UNEXPECTED"]
    log(f"payload damage: {nbeh_all} behaviours ({len(beh)} sampled), {len(cases)} replayed, {sum(ub.values())} end in undefined behaviour "
        f"(not replayed), {ndiff} differences between machine and code (see work/payload_report.json)")
    return rep
