"""Payload damage (beyond the listed properties; DESIGN section 10.1).

MC_Reader with MutKind = "payload": after the serializer machine, any single byte after the header is
replaced by a boundary value (0, 1, 2, 128, 255, byte + 1) and both reader machines run.  Design level: TLC
checks PayloadOutcomes / PayloadAgree / InBounds and classifies every behaviour; the ones in which the
code hands out memory that is not a value of its type (a bool that is not 0 / 1, an invalid char, a zero
NonZero, an enum tag without variant, a &str that is not UTF-8) end in the outcome "ub" and are *not*
replayed.  Every other behaviour is replayed on the real stream with the same byte replaced and the
outcome of both real deserializers compared with the machine's.

Nothing here is a listed property: the result is a report (work/payload_report.json and the summary in
DESIGN.md), it never raises a VIOLATION."""
import collections
import json
import os

from .common import *
from .readers import run_model, real_streams, apply_mut, INV


def classify(st):
    return st


def run(tier, names_path):
    quick = tier == "quick"
    tag = f"payload_{tier}"
    os.makedirs(os.path.join(WORK, tag), exist_ok=True)
    r = run_model("small1" if quick else "quick1", 1, "payload", names_path, tag,
                  invariants=INV + ["PayloadOutcomes", "PayloadAgree"])
    beh = r.json_lines
    streams = real_streams(beh, tag)
    cases, idx = [], []
    ub = collections.Counter()
    for i, b in enumerate(beh):
        fu, ep = b["full"]["st"], b["eps"]["st"]
        if fu == "ub" or ep == "ub":
            ub[(b["key"], "full" if fu == "ub" else "eps")] += 1
        real = streams[(b["key"], json.dumps(b["v"]))]
        if real is None:
            continue
        mutated = apply_mut(b["mut"], real)
        cases.append({"key": b["key"], "cmd": "de", "bytes": mutated, "base": 0, "full": fu != "ub", "eps": ep != "ub"})
        idx.append(i)
    obs = replay(cases, tag)
    agree = collections.Counter()
    diffs = []
    for i, c, o in zip(idx, cases, obs):
        b = beh[i]
        if o is None or "error" in o:
            agree["not-run"] += 1
            continue
        if "abort" in o:
            agree["abort"] += 1
            diffs.append({"key": b["key"], "v": b["v"], "mut": b["mut"], "predicted": [b["full"]["st"], b["eps"]["st"]],
                          "observed": "process died: " + o.get("stderr", "")[-200:]})
            continue
        for side in ("full", "eps"):
            if not c[side]:
                agree[f"{side}:ub-not-replayed"] += 1
                continue
            want, got = b[side]["st"], o[side]["st"]
            same = want == got
            if same and want == "ok":
                wv = b[side]["val"]
                same = o[side].get("val") == wv
            if same and want == "InvalidTag":
                same = True
            agree[f"{side}:{want}:{'same' if same else 'DIFF'}"] += 1
            if not same and len(diffs) < 200:
                diffs.append({"key": b["key"], "v": b["v"], "mut": b["mut"], "side": side,
                              "predicted": b[side], "observed": {k: o[side].get(k) for k in ("st", "val", "msg", "detail")}})
    rep = {"tier": tier, "states": r.distinct, "behaviours": len(beh), "replayed": len(cases),
           "outcomes": dict(sorted(agree.items())),
           "ub_by_type_and_mode": sorted([{"type": k[0], "mode": k[1], "mutations": n} for k, n in ub.items()],
                                         key=lambda x: -x["mutations"])[:80],
           "ub_total": sum(ub.values()), "differences": diffs}
    json.dump(rep, open(os.path.join(WORK, "payload_report.json"), "w"), indent=1)
    ndiff = sum(n for k, n in agree.items() if k.endswith("DIFF")) + agree["abort"]
    log(f"payload damage: {len(beh)} behaviours, {len(cases)} replayed, {sum(ub.values())} end in undefined behaviour "
        f"(not replayed), {ndiff} differences between machine and code (see work/payload_report.json)")
    return rep
