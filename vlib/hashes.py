"""C04: bytes written as one type are never accepted as a different type.

Design: MC_Hash checks that (type-hash preimage, align-hash preimage) is
injective up to SameStructure over a universe that contains every core
definition with its near-miss mutants (spec/Derive.tla) under the
constructors whose hashes recurse, and that the documented interchangeable
kinds share both.  A design-level counterexample (two structurally different
types with equal preimages) is not yet a violation: it is turned into a
replay against the real code.

Binding: (1) the real preimages of every compiled type (recording Hasher)
equal the specification's; (2) the real header words are grouped: two types
with equal words must be the same structure; (3) real cross-deserialization
of T's bytes as U, in both modes, for every ordered pair inside each mutant
family, every pair the design check flagged, every pair with equal real
words, and a seeded sample of all other pairs."""
import json
import os
import random
import re

from .common import *


def fam_of(desc):
    """(wrapper shape, leaf definition name) of a type of the hash universe."""
    k = desc["k"]
    if k in ("struct", "enum"):
        if desc["name"] == "G" and desc["tps"] and desc["tps"][0]["arg"]["k"] in ("struct", "enum") and not desc.get("mod"):
            inner = desc["tps"][0]["arg"]
            return ("G", inner["name"])
        return ("", desc["name"])
    if k in ("vec", "boxslice", "option", "bound", "array") and desc["elem"]["k"] in ("struct", "enum"):
        return (k, desc["elem"]["name"])
    if k == "cflow" and desc["b"]["k"] in ("struct", "enum"):
        return ("cflow", desc["b"]["name"])
    return None


def check(tier, seed, V, facts, uni_path):
    quick = tier == "quick"
    tag = f"c04_{tier}"
    os.makedirs(os.path.join(WORK, tag), exist_ok=True)
    cfg = os.path.join(WORK, tag, "mc.cfg")
    write_cfg(cfg, {"UsizeBytes": 8, "ZstUnit": 1, "TupleRangeConstTrue": False, "VLevel": 1, "TypeSet": "small1" if quick else "quick1"},
              invariants=["Interchangeable", "EmitConfusions"])
    r = tlc("MC_Hash", cfg, tag, workers=8, timeout=3000)
    if not r.ok:
        raise ToolError(f"TLC did not complete on MC_Hash: violated={r.violated} error={r.error}\n{r.out[-2000:]}")
    V.add_tlc(r)
    design_pairs = {(x["a"], x["b"]) for x in r.json_lines}
    V.cov["design_level_confusable_pairs"] = len(design_pairs)

    uni = json.load(open(uni_path))["types"]
    keys = [k for k in uni if k in facts and not facts[k].get("src")]

    # (1) the real recipe is the specification's recipe
    drift = 0
    for k in keys:
        f = facts[k]
        if f["th"] != f["spec_th_pre"] or f["ah"] != f["spec_ah_pre"]:
            drift += 1
            if drift <= 10:
                V.notes.append(f"SPEC-DRIFT {k}: real hash preimage differs from the specification's recipe")
    V.cov["types_with_preimage_compared"] = len(keys)
    V.cov["preimage_drift"] = drift

    # (2) equal real header words => same structure
    groups = {}
    for k in keys:
        f = facts[k]
        groups.setdefault((tuple(f["ser_th"]), tuple(f["ser_ah"])), []).append(k)
    equal_pairs = set()
    for g in groups.values():
        for a in g:
            for b in g:
                if a != b and uni[a]["erased"] != uni[b]["erased"]:
                    equal_pairs.add((a, b))
    V.cov["real_hash_groups"] = len(groups)

    # (3) cross-deserialization
    rnd = random.Random(seed)
    fams = {}
    for k in keys:
        fo = fam_of(uni[k]["desc"])
        if fo:
            fams.setdefault(fo, []).append(k)
    pairs = set()
    for fo, members in fams.items():
        for a in members:
            for b in members:
                pairs.add((a, b))
    pairs |= {p for p in design_pairs if p[0] in facts and p[1] in facts}
    pairs |= equal_pairs
    nrand = 6000 if quick else 60000
    for _ in range(nrand):
        pairs.add((rnd.choice(keys), rnd.choice(keys)))
    pairs = sorted(pairs)
    # one real stream per source type (first value of the specification's domain: use the harness' arbitrary value)
    srcs = sorted({a for a, _ in pairs})
    ser_cases = [{"key": a, "cmd": "serarb", "seed": seed} for a in srcs]
    ser_obs = replay(ser_cases, tag + "_ser")
    stream = {}
    for a, o in zip(srcs, ser_obs):
        if o and o.get("st") == "ok":
            stream[a] = o["out"]
    cases, meta = [], []
    for a, b in pairs:
        if a in stream:
            cases.append({"key": b, "cmd": "de", "bytes": stream[a], "base": 0})
            meta.append((a, b))
    obs = replay(cases, tag + "_x")
    accepted_same = 0
    for (a, b), o in zip(meta, obs):
        same = uni[a]["erased"] == uni[b]["erased"]
        V.count((a, b), a != b)
        rep = {"written_as": a, "read_as": b, "same_structure": same, "observed": o,
               "flagged_by_design_check": (a, b) in design_pairs}
        if o is None or "error" in o:
            continue
        if "abort" in o:
            V.violate(f"C04:abort:{b}<-{a}", f"reading bytes of {a} as {b} killed the process", rep)
            continue
        for side in ("full", "eps"):
            st = o[side]["st"]
            if same:
                if st in ("WrongTypeHash", "WrongAlignHash"):
                    V.violate(f"C04:refused:{b}<-{a}", f"{side}: bytes of {a} refused as {b} ({st}) although they have the same "
                              f"serialized structure", rep)
                else:
                    accepted_same += 1
            else:
                if st not in ("WrongTypeHash", "WrongAlignHash"):
                    what = "a value" if st == "ok" else f"{st} (past the hash checks)"
                    V.violate(f"C04:accepted:{b}<-{a}", f"{side}: bytes written as {a} read as {b} gave {what}, not a type-hash "
                              f"or alignment-hash error", rep)
    V.cov["traces_validated_against_impl"] += len(cases)
    V.cov["cross_deserializations"] = len(cases)
    V.cov["same_structure_acceptances"] = accepted_same
    V.cov["mutant_families"] = len(fams)
    if cases:
        V.sample({"written_as": meta[0][0], "read_as": meta[0][1]})
        V.sample({"written_as": meta[len(meta) // 2][0], "read_as": meta[len(meta) // 2][1]})
    V.cov["rule"] = ("ordered pairs (T, U): all pairs inside each near-miss family (definition x its mutants, under each "
                     "wrapper), all pairs flagged by the design check, all pairs with equal real header words, and a seeded "
                     "sample of the rest; T's real bytes are read as U in both modes; distinct = (T, U), non-trivial = T != U")
    V.cov["exhaustive"] = False
    V.assumptions += ["xxh3 collisions between distinct preimages (2^-64) are outside the model",
                      "token preimages are compared; the byte rendering (str bytes + 0xFF, native usize) is checked against "
                      "the real recording hasher for every compiled type"]
