"""./check selftest: the binding and the invariants are not vacuous.

(a) every defect that was repaired in /repo is kept in the specification as a disabled disjunct (a
    Bug* / ZstUnit / TupleRangeConstTrue constant): switching it on must make TLC violate the named
    invariant (the invariant can fail, and the model would have found the defect);
(b) a recorded trace with one corrupted field must be rejected by the trace specification;
(c) every action of the machines is taken in the exhaustive configurations (TLC -coverage)."""
import json
import os
import re

from .common import *
from .roundtrip import FIXED


def expect_violation(name, module, consts, invs, expected, env=None, extra_init=None):
    tag = "selftest"
    os.makedirs(os.path.join(WORK, tag), exist_ok=True)
    cfg = os.path.join(WORK, tag, f"{name}.cfg")
    init, nxt = extra_init or ("Init", "Next")
    write_cfg(cfg, consts, init=init, next_=nxt, invariants=invs)
    r = tlc(module, cfg, tag, env=env, workers=8, timeout=900)
    ok = r.violated == expected or (isinstance(expected, (list, tuple)) and r.violated in expected)
    print(f"  [{'ok' if ok else 'FAIL'}] {name}: expected TLC to violate {expected}, got {r.violated or r.error or 'no violation'}"
          f" ({r.distinct} states)")
    return ok


def run(names_path):
    ok = True
    base = dict(FIXED)
    base.update({"VLevel": 1})
    rt = dict(base, TypeSet="small1", Pres="{0, 1, 3}")
    RTINV = ["PosCounts", "BlockAligned", "UnitsSane", "OutIsEncode", "FullRoundTrip", "EpsRoundTrip", "BorrowsInPlace"]
    env = {"NAMES": names_path}
    print("(a) defects switched back on in the specification")
    ok &= expect_violation("cflow-tags", "MC_RoundTrip", dict(rt, BugCFlowTags=True), RTINV, "FullRoundTrip", env)
    ok &= expect_violation("zst-unit-0", "MC_RoundTrip", dict(rt, ZstUnit=0), RTINV, "UnitsSane", env)
    ok &= expect_violation("array0-eps", "MC_RoundTrip", dict(rt, BugArray0=True), RTINV, "EpsRoundTrip", env)
    ok &= expect_violation("zst-slice-eps", "MC_RoundTrip", dict(rt, BugZstSlice=True), RTINV, "EpsRoundTrip", env)
    ok &= expect_violation("zst-noalign-eps", "MC_RoundTrip", dict(rt, BugZstNoAlign=True, TypeSet="grammar", Pres="{3}"),
                           RTINV, "EpsRoundTrip", env)
    ok &= expect_violation("slice-free", "MC_Ser", dict(base, TypeSet="fault-tiny", Lies=False, SinkFaulty=True, BugSliceFree=True),
                           ["NoPanic", "FaultIsError", "SourceIntact"], "SourceIntact", env)
    ok &= expect_violation("option-tag", "MC_Reader",
                           dict(base, TypeSet="tiny", MutKind="tag", TagVals="{2, 9, 255}", Bases="{0}", BugOptTag=True),
                           ["TagRule"], "TagRule", env)
    mc = {"MaxSteps": 1, "LoaderSet": '{"load_mem", "load_mmap", "mmap"}', "FlagSet": "{0}",
          "CauseSet": '{"valid", "wrongtype", "trunc"}', "LenSet": "{64, 70}"}
    ok &= expect_violation("loader-leak", "MC_MemCase", dict(mc, BugLeakOnError=True, BugNoTruncate=False),
                           ["NoLeakOnFailure"], "NoLeakOnFailure")
    ok &= expect_violation("store-truncate", "MC_MemCase", dict(mc, BugLeakOnError=False, BugNoTruncate=True),
                           ["StoreExact"], "StoreExact")
    ok &= expect_violation("tuple-iszc", "MC_WrongZero", dict(base, TupleRangeConstTrue=True),
                           ["NoRawHandle", "PanicsBeforeValue"], ["PanicsBeforeValue", "NoRawHandle"])
    ok &= expect_violation("static-escape", "MC_Clients", {"MaxLen": 4}, ["AcceptedIsSafe"], "AcceptedIsSafe",
                           extra_init=("CInit", "CNext"))

    print("(b) corrupted traces must be rejected")
    tag = "selftest"
    # serializer trace: one pad/raw byte changed, one alignment unit changed, one row offset changed
    from .roundtrip import prep_trace, ALLK
    raw = prep_trace(harness(["record", "7", "40", "20"]).splitlines(), ALLK)
    def corrupt(lines, pred, mut):
        out, done = [], False
        for ln in lines:
            e = json.loads(ln)
            if not done and pred(e):
                mut(e)
                done = True
            out.append(json.dumps(e))
        return out if done else None
    tests = [
        ("w byte", lambda e: e["ev"] == "w" and len(e["bytes"]) >= 2 and e["pos"] > 45, lambda e: e["bytes"].__setitem__(0, (e["bytes"][0] + 1) % 256)),
        ("align unit", lambda e: e["ev"] == "align" and e["unit"] > 1 and e["pos"] % e["unit"] != 0, lambda e: e.__setitem__("unit", e["unit"] * 2)),
        ("row offset", lambda e: e["ev"] == "rows" and len(e["rows"]) > 9, lambda e: e["rows"][9].__setitem__("off", e["rows"][9]["off"] + 1)),
        ("returned count", lambda e: e["ev"] == "ret", lambda e: e.__setitem__("n", e["n"] + 1)),
        ("full value", lambda e: e["ev"] == "full" and e["val"] and e["val"][0] != [], lambda e: e.__setitem__("val", [[]])),
    ]
    consts = {"UsizeBytes": 8, "ZstUnit": 1, "VLevel": 1, "TupleRangeConstTrue": False, "BugSliceFree": False,
              "SinkGrain": "call", "SinkFaulty": False, "MaxFaults": 0}
    cfg = os.path.join(WORK, tag, "tser.cfg")
    write_cfg(cfg, consts, init="TInit", next_="TNext", invariants=["Furthest", "TPosCounts", "TBlockAligned"], extra="POSTCONDITION Accepted")
    def validate(lines, module, cfgpath):
        p = os.path.join(WORK, tag, "t.ndjson")
        open(p, "w").write("\n".join(lines) + "\n")
        r = tlc(module, cfgpath, tag, env={"TRACE": p}, workers=1, timeout=900,
                java_opts=["-Xss1g", "-Dtlc2.tool.queue.IStateQueue=StateDeque"])
        return "TRACE-REJECTED" in r.out, r
    rej, r = validate(raw, "Trace_Ser", cfg)
    good = not rej and r.error is None
    print(f"  [{'ok' if good else 'FAIL'}] unmodified serializer trace accepted ({len(raw)} events)")
    ok &= good
    for name, pred, mut in tests:
        c = corrupt(raw, pred, mut)
        if c is None:
            print(f"  [FAIL] no event to corrupt for {name}")
            ok = False
            continue
        rej, _ = validate(c, "Trace_Ser", cfg)
        print(f"  [{'ok' if rej else 'FAIL'}] serializer trace with a corrupted {name} rejected")
        ok &= rej
    # the full-copy reader trace: a read length, an alignment unit, the returned value, the final position
    rraw = [x for x in harness(["record", "7", "40", "20"]).splitlines() if re.search(r'"ev":\s*"r(init|d|align|ret)"', x)
            and not re.search(r'"ev":\s*"rd".*"len":\s*0\b', x)]
    rcfg = os.path.join(WORK, tag, "tread.cfg")
    write_cfg(rcfg, dict(consts, BugCFlowTags=False, BugOptTag=False, BugArray0=False, BugZstSlice=False, BugZstNoAlign=False,
                         ReaderGrain="call", ReaderFaulty=False, MaxRFaults=0),
              init="TInit", next_="TNext", invariants=["Furthest", "TInBounds"], extra="POSTCONDITION Accepted")
    rej, r = validate(rraw, "Trace_Read", rcfg)
    good = not rej and r.error is None
    print(f"  [{'ok' if good else 'FAIL'}] unmodified reader trace accepted ({len(rraw)} events)")
    ok &= good
    rtests = [
        ("read length", lambda e: e["ev"] == "rd" and e["pos"] > 45 and e["len"] >= 2, lambda e: e.__setitem__("len", e["len"] - 1)),
        ("alignment unit", lambda e: e["ev"] == "ralign" and e["unit"] > 1 and e["after"] > e["pos"], lambda e: e.__setitem__("unit", e["unit"] * 2)),
        ("alignment skip", lambda e: e["ev"] == "ralign" and e["after"] > e["pos"], lambda e: e.__setitem__("after", e["pos"])),
        ("returned value", lambda e: e["ev"] == "rret" and e["val"] and e["val"][0] != [], lambda e: e.__setitem__("val", [[]])),
        ("final position", lambda e: e["ev"] == "rret", lambda e: e.__setitem__("rpos", e["rpos"] - 1)),
    ]
    for name, pred, mut in rtests:
        c = corrupt(rraw, pred, mut)
        if c is None:
            print(f"  [FAIL] no event to corrupt for {name}")
            ok = False
            continue
        rej, _ = validate(c, "Trace_Read", rcfg)
        print(f"  [{'ok' if rej else 'FAIL'}] reader trace with a corrupted {name} rejected")
        ok &= rej
    # the loaders under strace: system calls and allocator calls against Trace_Loader.tla
    from . import loadertrace
    lcases = [{"loader": lo, "flags": fl, "cause": ca, "ty": ty, "n": 5, "ops": ops, "prior": pr}
              for lo in ("load_full", "load_mem", "load_mmap", "mmap") for fl, ca, ty, ops, pr in
              ((0, "valid", "vec8", [], "absent"), (5, "valid", "canary", ["move", "box", "send"], "longer"),
               (2, "wrongtype", "vec64", [], "shorter"), (0, "empty", "vec8", [], "absent"), (7, "valid", "canary", ["arc2"], "absent"))]
    lcases += [{"loader": "encase", "flags": 0, "cause": "valid", "ty": ty, "n": 5, "ops": ops, "prior": "absent"}
               for ty, ops in (("vec64", []), ("canary", ["move", "box", "send"]), ("doc", ["arc2"]))]
    levents, _ = loadertrace.record(lcases, tag)
    lraw = [json.dumps(e) for e in levents]
    lcfg = os.path.join(WORK, tag, "tloader.cfg")
    write_cfg(lcfg, {"MaxSteps": 64, "BugNoTruncate": False, "BugLeakOnError": False}, init="TInit", next_="TNext",
              invariants=["Furthest"], extra="POSTCONDITION Accepted")
    rej, r = validate(lraw, "Trace_Loader", lcfg)
    good = not rej and r.error is None
    print(f"  [{'ok' if good else 'FAIL'}] unmodified loader system-call trace accepted ({len(lraw)} events, {len(lcases)} cases)")
    ok &= good

    def drop_first(lines, pred):
        out, done = [], False
        for ln in lines:
            e = json.loads(ln)
            if not done and pred(e):
                done = True
                continue
            out.append(ln)
        return out if done else None

    def swap_first(lines, a, b):
        es = [json.loads(x) for x in lines]
        for i in range(len(es) - 1):
            if es[i]["ev"] == a and es[i + 1]["ev"] == b:
                es[i], es[i + 1] = es[i + 1], es[i]
                return [json.dumps(e) for e in es]
        return None
    ltests = [
        ("mapping length", corrupt(lraw, lambda e: e["ev"] == "map" and not e["anon"], lambda e: e.__setitem__("len", e["len"] + 11))),
        ("mapping protection", corrupt(lraw, lambda e: e["ev"] == "map" and not e["anon"], lambda e: e.__setitem__("prot", "rw"))),
        ("heap region size", corrupt(lraw, lambda e: e["ev"] == "halloc", lambda e: e.__setitem__("size", e["size"] - 48))),
        ("read length", corrupt(lraw, lambda e: e["ev"] == "read" and e["want"] < 8192, lambda e: e.__setitem__("got", e["got"] - 1))),
        ("advice", corrupt(lraw, lambda e: e["ev"] == "advise" and e["advice"] == "RANDOM", lambda e: e.__setitem__("advice", "SEQUENTIAL"))),
        ("missing advice", drop_first(lraw, lambda e: e["ev"] == "advise")),
        ("O_TRUNC flag (older, longer file at the path)", corrupt(lraw, lambda e: e["ev"] == "create", lambda e: e.__setitem__("trunc", False))
         if False else None),
        ("missing release after a failed load", None),
        ("missing release at drop", drop_first(lraw, lambda e: e["ev"] == "unmap")),
        ("double release", None),
        ("release before the structure's drop", swap_first(lraw, "sdrop", "unmap")),
    ]
    # the cases that need a position: built by hand
    es = [json.loads(x) for x in lraw]
    # O_TRUNC missing in a case whose prior file was longer
    cur, out, done = None, [], False
    for e in es:
        if e["ev"] == "case":
            cur = e
        if not done and e["ev"] == "create" and cur["prior"] == "longer":
            e = dict(e, trunc=False)
            done = True
        out.append(json.dumps(e))
    ltests[6] = ("O_TRUNC flag (older, longer file at the path)", out if done else None)
    # the release on the error path removed (wrongtype, load_mmap)
    cur, out, done = None, [], False
    for e in es:
        if e["ev"] == "case":
            cur = e
        if not done and e["ev"] in ("unmap", "hfree") and cur["cause"] == "wrongtype":
            done = True
            continue
        out.append(json.dumps(e))
    ltests[7] = ("missing release after a failed load", out if done else None)
    out, done = [], False
    for e in es:
        out.append(json.dumps(e))
        if not done and e["ev"] == "unmap":
            out.append(json.dumps(e))
            done = True
    ltests[9] = ("double release", out if done else None)
    for name, c in ltests:
        if c is None:
            print(f"  [FAIL] no event to corrupt for {name}")
            ok = False
            continue
        rej, _ = validate(c, "Trace_Loader", lcfg)
        print(f"  [{'ok' if rej else 'FAIL'}] loader trace with a corrupted {name} rejected")
        ok &= rej
    craw = harness(["cursor", "record", "3", "4", "60"]).splitlines()
    ccfg = os.path.join(WORK, tag, "tcur.cfg")
    open(ccfg, "w").write("INIT TInit\nNEXT TNext\nCHECK_DEADLOCK FALSE\nPOSTCONDITION Accepted\n")
    rej, r = validate(craw, "Trace_Cursor", ccfg)
    print(f"  [{'ok' if not rej else 'FAIL'}] unmodified cursor trace accepted ({len(craw)} events)")
    ok &= not rej
    c = corrupt(craw, lambda e: e["ev"] == "cop" and e["op"] == "write" and e["pos"] > 3, lambda e: e.__setitem__("pos", e["pos"] - 1))
    rej, _ = validate(c, "Trace_Cursor", ccfg)
    print(f"  [{'ok' if rej else 'FAIL'}] cursor trace with a corrupted position rejected")
    ok &= rej

    print("(c) action coverage of the exhaustive configurations")
    cov_cfg = os.path.join(WORK, tag, "cov.cfg")
    write_cfg(cov_cfg, dict(rt, TypeSet="small1"), invariants=["PosCounts"])
    r = tlc("MC_RoundTrip", cov_cfg, tag, env=env, workers=4, timeout=900, extra_args=["-coverage", "1"])
    need = {"EpsSer": ["DoEnter", "DoExit", "DoRaw", "DoAlignStart", "DoPadByte", "DoBlock", "DoZcCheck", "DoFlush"],
            "EpsRead": ["FetchCall", "StepR", "StepAlign", "StepBlock", "StepBuild", "StepIncl", "StepHdr", "RFinish"],
            "EpsSystem": ["Load"]}
    # TLC reports coverage per expression location: an action was taken if the conjuncts right below its
    # definition line were evaluated to the end at least once (the primed assignments carry a count)
    cov = {}
    for m in re.finditer(r"line (\d+), col \d+ to line (\d+), col \d+ of module (\w+): (\d+)", r.out):
        cov.setdefault(m.group(3), []).append((int(m.group(1)), int(m.group(2)), int(m.group(4))))
    nacts = 0
    for mod, acts in need.items():
        src = open(os.path.join(SPEC, mod + ".tla")).read().splitlines()
        for a in acts:
            nacts += 1
            start = next(i for i, ln in enumerate(src) if ln.startswith(a + " ==")) + 1
            end = start + 1
            while end < len(src) and src[end].strip() and not re.match(r"^[A-Za-z]\w* ==|^[A-Za-z]\w*\(.*\) ==", src[end]):
                end += 1
            # the last lines of the action (its UNCHANGED / primed conjuncts) must have been reached
            hit = max([c for (l1, l2, c) in cov.get(mod, []) if start + 1 <= l1 <= end + 1 and l1 >= end - 2] + [0])
            if hit == 0:
                print(f"  [FAIL] action {a} of {mod} was never completed")
                ok = False
    need = list(range(nacts))
    print(f"  [{'ok' if ok else 'FAIL'}] {len(need)} actions of the serializer / reader machines all taken")
    return 0 if ok else 1
