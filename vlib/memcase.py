"""C08 (file loaders) and C09 (backing memory: released exactly once, nothing leaked on failure,
structure dropped before its backing region; the compile-time lifetime part is in vlib/probes.py).

MemCase.tla models the four loaders step by step (stat, pre-check, allocate / map, read, zero the
tail, write the backend into the uninitialised case, ε-copy deserialize, write the structure,
return) and the owner's life cycle (moves, boxing, sends, shared reads, drop of structure then
backend) with ghost counters for what the process holds.  TLC checks RegionSound /
LiveWhileReadable (C08) and ReleasedAtMostOnce / NoLeakOnFailure / ReleasedWhenDropped /
StructureBeforeBackend (C09) over every loader x flag set x failure cause x length residue x owner
history, and prints each terminal state; the harness replays it on real files."""
import json
import os

from .common import *

CAUSES = ["valid", "wrongtype", "wrongalign", "corrupt", "trunc", "empty", "missing", "bigalign", "isdir"]


def run_model(tag, loaders, flags, causes, lens, maxsteps):
    cfg = os.path.join(WORK, tag, f"mc_{maxsteps}.cfg")
    os.makedirs(os.path.join(WORK, tag), exist_ok=True)
    st = lambda xs: "{" + ", ".join(('"%s"' % x) if isinstance(x, str) else str(x) for x in xs) + "}"
    write_cfg(cfg, {"MaxSteps": maxsteps, "BugLeakOnError": False, "BugNoTruncate": False, "LoaderSet": st(loaders), "FlagSet": st(flags),
                    "CauseSet": st(causes), "LenSet": st(lens)},
              invariants=["StoreExact", "RegionSound", "LiveWhileReadable", "ReleasedAtMostOnce", "NoLeakOnFailure",
                          "ReleasedWhenDropped", "StructureBeforeBackend", "AdviceGiven", "MappingReadOnly", "NoBackendNoRegion", "EmitM"])
    r = tlc("MC_MemCase", cfg, tag, workers=8, timeout=3000)
    if not r.ok:
        raise ToolError(f"TLC did not complete on MC_MemCase: violated={r.violated} error={r.error}\n{r.out[-2000:]}")
    return r


def harness_ops(ops):
    """owner history of the model -> operations of the harness"""
    out = []
    i = 0
    while i < len(ops):
        o = ops[i]
        if o == "move":
            out.append("move")
        elif o == "box":
            out.append("box")
        elif o == "send":
            if i + 1 < len(ops) and ops[i + 1] == "back":
                out.append("send")
                i += 1
            else:
                # remaining history happens on the other thread; it ends with the drop there
                out.append("dropthread")
                break
        elif o == "arc":
            out.append("arc2")
        i += 1
    return out


def to_cases(beh, nommap):
    """One harness case per behaviour (several payload types for the plain ones)."""
    cases, meta = [], []
    seen = set()
    for b in beh:
        if nommap and b["loader"] in ("load_mmap", "mmap"):
            continue
        ops = harness_ops(b["ops"])
        if b["loader"] == "encase":
            tys = ["doc", "canary"] if b["ops"] else ["vec64", "doc", "canary"]
        elif b["cause"] == "wrongalign":
            tys = ["lay"]
        elif b["cause"] == "bigalign":
            tys = ["big128"]
        elif b["cause"] == "isdir":
            tys = ["vec8"]
        elif b["ops"]:
            tys = ["doc", "canary"]
        else:
            tys = ["vec8", "vec64", "string", "doc", "canary"] if b["flen"] % 16 == 0 else ["vec8"]
        for ty in tys:
            # vec8 reaches every residue of the file length modulo 64 through its payload length
            n = b["flen"] % 64 if ty == "vec8" else (b["flen"] % 7) + 1
            # cut points: inside the header (error) and inside the payload (ε-copy may panic on a bounds check)
            cut = [0, 5, 29, 40, -1, -9, -20][b["flen"] % 7]
            c = {"loader": b["loader"], "flags": b["flags"], "cause": b["cause"], "ty": ty, "n": n, "ops": ops,
                 "prior": b["prior"]}
            if b["cause"] == "trunc":
                c["cut"] = cut
            k = json.dumps(c, sort_keys=True)
            if k in seen:
                continue
            seen.add(k)
            cases.append(c)
            meta.append(b)
    return cases, meta


def pad(v, u):
    return (u - v % u) % u


def judge(pid, b, c, o, V):
    name = f"{c['loader']}({c['ty']}, flags={c['flags']}, {c['cause']})"
    V.count(json.dumps(c, sort_keys=True), True)
    rep = {"case": c, "predicted": {"result": b["result"], "round": b["round"], "kind": b["kind"]}, "observed": o}
    threads = any(x in ("send", "arc2", "dropthread") for x in c["ops"])

    def viol(what, kind):
        V.violate(f"{pid}:{kind}:{c['loader']}:{c['cause']}", what, rep)
    if o is None or "error" in o:
        V.notes.append(f"not run: {c}")
        return
    if "abort" in o:
        viol(f"{name}: the process died ({o.get('stderr', '')[-200:]})", "abort")
        return
    res = o["res"]
    if pid == "C08":
        if c["cause"] != "valid":
            return
        if not o["store_exact"]:
            viol(f"{name}: store() did not write exactly the serialized bytes", "store")
        if res != "ok":
            viol(f"{name}: loading a valid file failed with {res} {o.get('msg') or ''}", "load")
            return
        if not o["digest_ok"]:
            viol(f"{name}: the loaded structure differs from the value the file was written from", "value")
        if c["loader"] == "encase" and o["region"] is not None:
            viol(f"{name}: a case built in memory owns a backing region", "region")
        if c["loader"] not in ("load_full", "encase"):
            rg = o["region"]
            if rg is None:
                viol(f"{name}: no backing region", "region")
                return
            want = o["file_len"] + pad(o["file_len"], b["round"])
            if rg["cap"] != want:
                viol(f"{name}: backing region has {rg['cap']} bytes for a {o['file_len']}-byte file, expected {want}", "capacity")
            if b["kind"] == "heap" and rg["res64"] != 0:
                viol(f"{name}: heap region is not aligned to the largest supported unit (address % 64 = {rg['res64']})", "align")
            if b["kind"] == "map" and rg["res4096"] != 0:
                viol(f"{name}: mapping is not page aligned", "align")
            if c["loader"] in ("load_mem", "load_mmap") and not rg["tail_zero"]:
                viol(f"{name}: the region is not zero-filled from the end of the file to its rounded-up length", "tail")
            if not o["all_inside"]:
                viol(f"{name}: a borrowed part of the loaded structure lies outside the backing region", "outside")
        if not o["digest_stable"]:
            viol(f"{name}: the structure read differently after {c['ops']}", "moved")
    else:  # C09
        want = b["result"]
        if c["cause"] == "trunc":
            # what a zero-extended truncated file parses to is not claimed; only that nothing leaks
            pass
        elif want == "ok" and res != "ok":
            viol(f"{name}: expected success, got {res}", "result")
        elif want != "ok" and res == "ok":
            viol(f"{name}: loading succeeded although the file is {c['cause']}", "result")
        elif want not in ("ok", "Io") and res != want and res != "panic":
            V.notes.append(f"SPEC-DRIFT {name}: error {res}, specification {want}")
        if o["heap_after_drop"] != 0:
            what = "after the failed load" if res != "ok" else "after the result was dropped"
            viol(f"{name}: {o['heap_after_drop']} heap bytes are still allocated {what}", "heapleak")
        if not threads and o["maps_after_drop"] != 0:
            what = "after the failed load" if res != "ok" else "after the result was dropped"
            viol(f"{name}: {o['maps_after_drop']} more memory mapping(s) exist {what}", "mapleak")
        if res == "ok" and b["kind"] == "map" and o["region_mapped_after_drop"]:
            viol(f"{name}: the mapping is still present after the owner was dropped", "mapleak")
        if res == "ok" and c["ty"] == "canary" and c["cause"] == "valid":
            if o["canary_drops"] != 1:
                viol(f"{name}: the structure was dropped {o['canary_drops']} times", "drops")
            elif not o["canary_saw_valid_data"]:
                viol(f"{name}: the structure's Drop saw damaged data: the backing memory was released first", "order")


def check(pid, tier, seed, V):
    quick = tier == "quick"
    tag = f"{pid.lower()}_{tier}"
    loaders = ["load_full", "load_mem", "load_mmap", "mmap", "encase"]
    # file lengths of every residue modulo 64 (valid files are longer than the 45-byte minimum)
    lens = list(range(64, 128)) if (pid == "C08" or not quick) else [64, 65, 79, 80, 81, 112, 127]
    flags = list(range(8))
    causes = ["valid"] if pid == "C08" else CAUSES
    r1 = run_model(tag, loaders, flags, causes, lens, 0)
    V.add_tlc(r1)
    r2 = run_model(tag, loaders, [0, 5], ["valid"], [80, 97], 3 if quick else 4)
    V.add_tlc(r2)
    beh = r1.json_lines + r2.json_lines
    total = 0
    for build in ("default", "nommap") if pid == "C08" else ("default",):
        nommap = build == "nommap"
        if nommap:
            build_harness("nommap")
        cases, meta = to_cases(beh, nommap)
        if pid == "C08":
            # files of tens of kilobytes made of many small items (every loader; the buffered reader of load_full
            # refills several times, small reads straddle its buffer)
            for lo in loaders:
                if lo == "encase" or (nommap and lo in ("load_mmap", "mmap")):
                    continue
                b0 = next((b for b in beh if b["loader"] == lo and b["cause"] == "valid" and not b["ops"]), None)
                if b0 is not None:
                    for n in (700, 1000, 2003):
                        cases.append({"loader": lo, "flags": 0, "cause": "valid", "ty": "strs", "n": n, "ops": [], "prior": "absent"})
                        meta.append(b0)
        obs = replay(cases, tag + "_" + build, sub="memcase")
        for b, c, o in zip(meta, cases, obs):
            judge(pid, b, c, o, V)
        total += len(cases)
        V.cov[f"cases_{build}"] = len(cases)
        if not nommap:
            # implementation -> specification: the same cases once more under strace, the system calls and the
            # allocator calls validated against Trace_Loader.tla (lengths, protection, advice, single release, order)
            from . import loadertrace
            loadertrace.validate(pid, cases, tag + "_systrace", V)
        if nommap:
            build_harness()
    if pid == "C09":
        from . import probes
        probes.check_clients(tier, seed, V)
    V.cov["traces_validated_against_impl"] += total
    V.sample({"case": {k: beh[0][k] for k in ("loader", "flags", "cause", "flen", "ops")}, "predicted": beh[0]["result"]})
    m = r2.json_lines[len(r2.json_lines) // 2]
    V.sample({"case": {k: m[k] for k in ("loader", "flags", "cause", "flen", "ops")}, "predicted": m["result"]})
    V.cov["rule"] = ("TLC enumerates loader x flag set x failure cause x file-length residue and every owner history (move, box, "
                     "send to a thread and back or drop there, share through Arc with two readers) to the step bound; each "
                     "terminal state is replayed on a real file; distinct = distinct harness case")
    V.cov["exhaustive"] = True
    V.assumptions += ["system calls are observed with strace -f; the allocator's calls with alignment >= 64 are reported by "
                      "the harness's global allocator as marker system calls at the moment of the call",
                      "heap usage is observed by the harness' tracking global allocator, mappings through /proc/self/maps",
                      "a double release would abort the process (glibc / munmap of a foreign range is not detected)",
                      "the backing region is read through the cfg(epserde_verif) hook MemCase::verif_backend_range"]
