"""Compile probes generated from the specification.

C09 (lifetime part): TLC enumerates every client program of spec/Clients.tla up to a length bound
with its classification (accepted by the borrow checker per the declared signatures / safe = never
uses released memory).  Each program is rendered as a Rust binary of /verif/probes, all are built
with `cargo build --bins --keep-going --message-format=json`, the per-binary compile outcome is
compared with the classification, and the binaries that compile are run.
A program that compiles although it uses released memory is a violation (or a known finding)."""
import glob
import json
import os
import shutil

from .common import *

PROBES = os.path.join(ROOT, "probes")


def render_mem(i, prog):
    doc = "field" in prog
    loader = ["load_mem", "mmap", "load_mmap"][i % 3]
    flags = "" if loader == "load_mem" else ", Flags::empty()"
    if doc:
        ty, sty, kind = "probes::Doc<Vec<u64>>", "probes::Doc<&'static [u64]>", "doc"
    else:
        ty, sty, kind = "Vec<u64>", "&'static [u64]", "vec"
    L = ["// @generated from spec/Clients.tla: " + " ".join(prog),
         "#![allow(unused_variables, unused_mut, dropping_references, dropping_copy_types)]",
         "use epserde::prelude::*;", "fn main() {",
         f'    let path = probes::sample_file("c{i}", "{kind}");',
         f"    let case: MemCase<{sty}> = <{ty}>::{loader}(&path{flags}).unwrap();",
         "    std::fs::remove_file(&path).ok();"]
    for op in prog:
        if op == "deref":
            L.append("    let r = &*case;")
        elif op == "asref":
            L.append(f"    let r: &{sty} = case.as_ref();")
        elif op in ("copyout", "field"):
            L.append("    let s: &'static [u64] = " + ("r.data;" if doc else "*r;"))
        elif op == "move":
            L.append("    let case = std::hint::black_box(case);")
        elif op == "dropcase":
            L.append("    drop(case);")
            L.append("    probes::churn();")
        elif op == "use_r":
            L.append("    probes::sink(5, " + ("r.data[5]" if doc else "r[5]") + ");")
        elif op == "use_s":
            L.append("    probes::sink(9, s[9]);")
    L.append('    println!("DONE");')
    L.append("}")
    return "\n".join(L) + "\n"


def render_eps(i, prog):
    L = ["// @generated from spec/Clients.tla: " + " ".join(prog),
         "#![allow(unused_variables, unused_mut, dropping_references, dropping_copy_types)]",
         "use epserde::prelude::*;", "fn main() {",
         "    let buf = probes::sample_buf();"]
    for op in prog:
        if op == "eps":
            L.append("    let e = <Vec<u64>>::deserialize_eps(buf.as_bytes()).unwrap();")
        elif op == "ecopy":
            L.append("    let s = &e[2..];")
        elif op == "dropbuf":
            L.append("    drop(buf);")
            L.append("    probes::churn();")
        elif op == "movebuf":
            L.append("    let buf = std::hint::black_box(buf);")
        elif op == "use_e":
            L.append("    probes::sink(5, e[5]);")
        elif op == "use_s":
            L.append("    probes::sink(9, s[7]);")
    L.append('    println!("DONE");')
    L.append("}")
    return "\n".join(L) + "\n"


def build_probes(prefix):
    """Build every binary of the probes crate; returns {bin name: (compiled?, first error code/message)}."""
    p = sh(["cargo", "build", "--bins", "--keep-going", "--offline", "--message-format=json", "-q"],
           cwd=PROBES, timeout=3000)
    res = {}
    for line in p.stdout.splitlines():
        try:
            m = json.loads(line)
        except ValueError:
            continue
        if m.get("reason") == "compiler-artifact" and "bin" in m["target"]["kind"]:
            res[m["target"]["name"]] = (True, None)
        elif m.get("reason") == "compiler-message" and m["message"]["level"] == "error":
            name = m["target"]["name"]
            if "lib" in m["target"]["kind"]:
                raise ToolError("the probes support library does not compile: " + m["message"]["message"][:400])
            if name not in res or res[name][0]:
                code = (m["message"].get("code") or {}).get("code")
                res[name] = (False, f"{code}: {m['message']['message'][:160]}")
    if not res and p.returncode != 0:
        raise ToolError("probe build failed:\n" + p.stderr[-3000:])
    return {k: v for k, v in res.items() if k.startswith(prefix)}


def clean_bins(prefix):
    os.makedirs(os.path.join(PROBES, "src", "bin"), exist_ok=True)
    for f in glob.glob(os.path.join(PROBES, "src", "bin", prefix + "*.rs")):
        os.remove(f)


def sig(prog):
    """access path of the reference whose use is the last op"""
    last = prog[-1]
    if last == "use_r":
        src = [o for o in prog if o in ("deref", "asref")][-1]
        return src
    if last == "use_e":
        return "eps"
    if last == "use_s":
        mk = [o for o in prog if o in ("copyout", "field", "ecopy")][-1]
        base = [o for o in prog[:prog.index(mk) + 1] if o in ("deref", "asref", "eps")][-1]
        return f"{base}>{mk}"
    return "?"


def check_clients(tier, seed, V):
    quick = tier == "quick"
    tag = f"c09p_{tier}"
    os.makedirs(os.path.join(WORK, tag), exist_ok=True)
    cfg = os.path.join(WORK, tag, "mc.cfg")
    write_cfg(cfg, {"MaxLen": 4 if quick else 5}, init="CInit", next_="CNext", invariants=["EmitC"])
    r = tlc("MC_Clients", cfg, tag, workers=4, timeout=1200)
    if not r.ok:
        raise ToolError(f"TLC did not complete on MC_Clients: {r.violated} {r.error}\n{r.out[-1500:]}")
    V.add_tlc(r)
    progs = r.json_lines
    # design-level check: does the model admit an accepted but unsafe program?
    unsafe_accepted = [p for p in progs if p["accepted"] and not p["safe"]]
    V.cov["design_level_accepted_unsafe_programs"] = len(unsafe_accepted)
    clean_bins("c_")
    for i, p in enumerate(progs):
        src = render_mem(i, p["prog"]) if p["family"] == "mem" else render_eps(i, p["prog"])
        open(os.path.join(PROBES, "src", "bin", f"c_{i:04d}.rs"), "w").write(src)
    res = build_probes("c_")
    for i, p in enumerate(progs):
        name = f"c_{i:04d}"
        compiled, err = res.get(name, (None, "no outcome reported"))
        V.count((p["family"], tuple(p["prog"])), True)
        rep = {"program": p["prog"], "family": p["family"], "model": {"accepted": p["accepted"], "safe": p["safe"]},
               "compiled": compiled, "compile_error": err,
               "source": os.path.join(PROBES, "src", "bin", name + ".rs")}
        if compiled is None:
            V.notes.append(f"{name}: {err}")
            continue
        if compiled and not p["safe"]:
            out = sh([os.path.join(PROBES, "target", "debug", name)], timeout=60)
            rep["run"] = {"exit": out.returncode, "stdout": out.stdout[-300:], "stderr": out.stderr[-300:]}
            V.violate(f"C09:uaf:{p['family']}:{sig(p['prog'])}",
                      f"a safe client program that uses data after its backing memory was released compiles: "
                      f"{' ; '.join(p['prog'])} (run: exit {out.returncode}, {out.stdout.strip().splitlines()[:3]})", rep)
        elif compiled and p["safe"]:
            out = sh([os.path.join(PROBES, "target", "debug", name)], timeout=60)
            if out.returncode != 0 or "READ-WRONG" in out.stdout or "DONE" not in out.stdout:
                V.violate(f"C09:run:{p['family']}:{sig(p['prog'])}",
                          f"a safe client program misbehaved at run time: {' ; '.join(p['prog'])}: exit {out.returncode} "
                          f"{out.stdout.strip()[-100:]}", rep)
        elif not compiled and p["accepted"]:
            V.notes.append(f"SPEC-DRIFT: the compiler rejects a program the model accepts: {' ; '.join(p['prog'])}: {err}")
    V.cov["traces_validated_against_impl"] += len(progs)
    V.cov["client_programs"] = len(progs)
    V.cov["client_programs_compiled"] = sum(1 for v in res.values() if v[0])
    V.sample({"program": progs[len(progs) // 2]["prog"], "model": progs[len(progs) // 2]})
    clean_bins("c_")
