"""Shared machinery of the check runner: building the harness, running TLC,
replaying behaviours, writing evidence / replays, known findings."""
import hashlib
import json
import os
import re
import subprocess
import sys
import time

ROOT = "/verif"
WORK = os.path.join(ROOT, "work")
SPEC = os.path.join(ROOT, "spec")
HARNESS = os.path.join(ROOT, "harness")
BIN = os.path.join(HARNESS, "target", "debug", "harness")
TLA_JAR = "/opt/veriftools/tla/tla2tools.jar"


class ToolError(Exception):
    """Something in the machinery (not the property) failed: exit code 2."""


def log(*a):
    print(*a, file=sys.stderr, flush=True)


def sh(cmd, timeout=3600, env=None, cwd=None, check=False, stdin=None):
    e = dict(os.environ)
    e.update({"CARGO_NET_OFFLINE": "true"})
    if env:
        e.update(env)
    t0 = time.time()
    try:
        p = subprocess.run(cmd, shell=isinstance(cmd, str), cwd=cwd, env=e, timeout=timeout,
                           stdout=subprocess.PIPE, stderr=subprocess.PIPE, text=True, errors="replace", input=stdin)
    except subprocess.TimeoutExpired:
        raise ToolError(f"timeout after {timeout}s: {cmd}")
    if check and p.returncode != 0:
        raise ToolError(f"command failed ({p.returncode}): {cmd}\n{p.stdout[-2000:]}\n{p.stderr[-4000:]}")
    p.wall = time.time() - t0
    return p


def spec_hash():
    h = hashlib.sha256()
    for d in (SPEC, os.path.join(ROOT, "gen")):
        for fn in sorted(os.listdir(d)):
            if fn.endswith((".tla", ".py")):
                h.update(fn.encode())
                h.update(open(os.path.join(d, fn), "rb").read())
    return h.hexdigest()


# ---------------------------------------------------------------------------
# TLC

class TlcResult:
    def __init__(self, out, wall):
        self.out = out
        self.wall = wall
        self.json_lines = []
        for line in out.splitlines():
            if line.startswith('"{') or line.startswith('"['):
                try:
                    self.json_lines.append(json.loads(json.loads(line)))
                except Exception:
                    pass
        m = re.search(r"(\d+) states generated, (\d+) distinct states found", out)
        self.generated = int(m.group(1)) if m else 0
        self.distinct = int(m.group(2)) if m else 0
        self.violated = None
        m = re.search(r"Invariant (\S+) is violated", out)
        if m:
            self.violated = m.group(1)
        m = re.search(r"Error: (.*)", out)
        self.error = m.group(1) if (m and not self.violated) else None
        if "Model checking completed. No error has been found." in out or \
           "Finished computing initial states" in out and self.violated is None and self.error is None:
            pass
        self.ok = self.violated is None and self.error is None and self.generated > 0
        self.postcondition_failed = "Postcondition" in out and "violated" in out.lower()


def write_cfg(path, constants, init="Init", next_="Next", invariants=(), extra=""):
    lines = ["CONSTANTS"]
    for k, v in constants.items():
        if isinstance(v, bool):
            v = "TRUE" if v else "FALSE"
        elif isinstance(v, str) and not v.startswith("{"):
            v = '"%s"' % v
        lines.append(f"  {k} = {v}")
    lines.append(f"INIT {init}")
    lines.append(f"NEXT {next_}")
    lines.append("CHECK_DEADLOCK FALSE")
    if invariants:
        lines.append("INVARIANTS")
        lines.append("  " + " ".join(invariants))
    if extra:
        lines.append(extra)
    open(path, "w").write("\n".join(lines) + "\n")


def tlc(module, cfg, tag, env=None, workers=8, timeout=1800, extra_args=(), java_opts=None):
    """Run TLC on spec/<module>.tla with config file `cfg`; metadir under work/<tag>."""
    md = os.path.join(WORK, tag, "md")
    os.makedirs(md, exist_ok=True)
    # (-checkpoint 0: the depth-first queue used for trace validation cannot checkpoint; TLC would throw after 30 min)
    cmd = ["tlc", "-workers", str(workers), "-metadir", md, "-cleanup", "-noGenerateSpecTE", "-checkpoint", "0",
           "-config", cfg] + list(extra_args) + [os.path.join(SPEC, module + ".tla")]
    e = {}
    if java_opts:
        e["JAVA_TOOL_OPTIONS"] = " ".join(java_opts)
    if env:
        e.update(env)
    p = sh(cmd, timeout=timeout, env=e, cwd=os.path.join(WORK, tag))
    res = TlcResult(p.stdout + p.stderr, p.wall)
    open(os.path.join(WORK, tag, "tlc.out"), "w").write(p.stdout + p.stderr)
    return res


# ---------------------------------------------------------------------------
# harness

def ensure_universe(force=False):
    """Export the universe from the specification and generate the Rust sources
    (only when the specification or the generator changed)."""
    os.makedirs(WORK, exist_ok=True)
    stamp = os.path.join(ROOT, "gen", "universe.stamp")
    uni = os.path.join(ROOT, "gen", "universe.json")
    h = spec_hash()
    if not force and os.path.exists(stamp) and open(stamp).read().strip() == h and os.path.exists(uni):
        return uni
    tag = "export"
    os.makedirs(os.path.join(WORK, tag), exist_ok=True)
    cfg = os.path.join(WORK, tag, "MC_Export.cfg")
    write_cfg(cfg, {"UsizeBytes": 8, "ZstUnit": 1, "TupleRangeConstTrue": False, "VLevel": 1, "TypeSet": "all"})
    r = tlc("MC_Export", cfg, tag, workers=1, timeout=600)
    if not r.json_lines:
        raise ToolError("universe export failed:\n" + r.out[-3000:])
    raw = os.path.join(WORK, tag, "export.out")
    open(raw, "w").write(r.out)
    p = sh(["python3", os.path.join(ROOT, "gen", "gen_universe.py"), raw, HARNESS, uni], check=True)
    log(p.stdout.strip())
    # the generated universe of C05 (spec/Derive.tla grammar)
    cfg = os.path.join(WORK, tag, "MC_Export_g.cfg")
    write_cfg(cfg, {"UsizeBytes": 8, "ZstUnit": 1, "TupleRangeConstTrue": False, "VLevel": 1, "TypeSet": "grammar"})
    r = tlc("MC_Export", cfg, tag, workers=1, timeout=600)
    if not r.json_lines:
        raise ToolError("grammar export failed:\n" + r.out[-3000:])
    raw = os.path.join(WORK, tag, "export_g.out")
    open(raw, "w").write(r.out)
    p = sh(["python3", os.path.join(ROOT, "gen", "gen_universe.py"), raw, HARNESS,
            os.path.join(ROOT, "gen", "grammar.json"), "grammar"], check=True)
    log(p.stdout.strip())
    open(stamp, "w").write(h + "\n")
    return uni


def build_harness(features=None):
    """(Re)build the harness against /repo's current working tree, hooks enabled."""
    cmd = ["cargo", "build", "-p", "cli", "--offline"]
    if features == "nommap":
        cmd += ["--no-default-features"]
    t0 = time.time()
    p = sh(cmd, cwd=HARNESS, timeout=3000)
    if p.returncode != 0:
        raise ToolError("harness build failed:\n" + p.stderr[-6000:])
    return time.time() - t0


def harness(args, timeout=1800, stdin=None):
    p = sh([BIN] + args, timeout=timeout, stdin=stdin)
    if p.returncode != 0:
        raise ToolError(f"harness {args} failed ({p.returncode}):\n{p.stderr[-3000:]}")
    return p.stdout


def harness_facts(uni):
    out = harness(["facts", uni])
    facts = json.loads(out)
    path = os.path.join(WORK, "facts.json")
    open(path, "w").write(out)
    names = {k: v["name_len"] for k, v in facts.items()}
    npath = os.path.join(WORK, "names.json")
    json.dump(names, open(npath, "w"))
    return facts, npath


def replay(cases, tag, sub="replay", binpath=None):
    """Run the cases (list of dicts with at least key) through the real library.
    A case that kills the process (abort on allocation failure, double free, SIGSEGV)
    is recorded as {"abort": <status>} and the run continues after it."""
    os.makedirs(os.path.join(WORK, tag), exist_ok=True)
    path = os.path.join(WORK, tag, "cases.ndjson")
    with open(path, "w") as f:
        for c in cases:
            f.write(json.dumps(c) + "\n")
    obs = [None] * len(cases)
    start = 0
    while start < len(cases):
        p = sh([binpath or BIN, sub, path, str(start)], timeout=3000)
        last_started = None
        for line in p.stdout.splitlines():
            if not line.strip():
                continue
            try:
                r = json.loads(line)
            except ValueError:
                continue
            if "start" in r:
                last_started = r["start"]
            else:
                obs[r["i"]] = r["obs"]
        if p.returncode == 0:
            break
        tail = [l for l in p.stderr.splitlines() if "warning" not in l and "zero-copy, but" not in l][-6:]
        if last_started is None:
            raise ToolError(f"harness replay failed ({p.returncode}):\n{p.stderr[-3000:]}")
        if obs[last_started] is not None:
            # the process died after the case had reported (heap corruption detected late, e.g. at exit or by
            # a later free): attribute it to that case and go on with the next one
            obs[last_started] = {"abort": p.returncode, "late": True, "stderr": "\n".join(tail)[-600:]}
        else:
            obs[last_started] = {"abort": p.returncode, "stderr": "\n".join(tail)[-600:]}
        start = last_started + 1
    return obs


# ---------------------------------------------------------------------------
# evidence, replays, known findings

def known_findings():
    p = os.path.join(ROOT, "KNOWN_FINDINGS.json")
    if not os.path.exists(p):
        return []
    return json.load(open(p)).get("findings", [])


class Verdict:
    """Collects violations of one property during one run."""

    def __init__(self, pid, tier, seed):
        self.pid, self.tier, self.seed = pid, tier, seed
        self.t0 = time.time()
        self.violations = []     # (fkey, what, replay object)
        self.known_hits = {}
        self.notes = []
        self.cov = {"evaluations": 0, "distinct_nontrivial": 0, "samples": [], "states": 0, "transitions": 0,
                    "traces_validated_against_impl": 0}
        self.assumptions = []
        self._distinct = set()

    def count(self, distinct_key=None, nontrivial=True):
        self.cov["evaluations"] += 1
        if distinct_key is not None and nontrivial:
            self._distinct.add(distinct_key)

    def sample(self, s, limit=5):
        if len(self.cov["samples"]) < limit:
            self.cov["samples"].append(s)

    def violate(self, fkey, what, replay_obj):
        self.violations.append((fkey, what, replay_obj))

    def add_tlc(self, r):
        self.cov["states"] += r.distinct
        self.cov["transitions"] += r.generated

    def finish(self, level="model_checking", extra_cov=None):
        self.cov["distinct_nontrivial"] = len(self._distinct)
        if extra_cov:
            self.cov.update(extra_cov)
        kf = [k for k in known_findings() if k.get("property") == self.pid and k.get("status", "open") == "open"]
        new = []
        seen_known = set()
        for fkey, what, rep in self.violations:
            hit = None
            for k in kf:
                if re.fullmatch(k["key"], fkey):
                    hit = k
                    break
            if hit:
                if hit["key"] not in seen_known:
                    seen_known.add(hit["key"])
                    print(f"KNOWN-FINDING: property={self.pid} {hit['what']}")
            else:
                new.append((fkey, what, rep))
        # one replay file per distinct new violation key (first occurrence)
        reported = set()
        for fkey, what, rep in new:
            if fkey in reported:
                continue
            reported.add(fkey)
            d = os.path.join(ROOT, "replays", self.pid)
            os.makedirs(d, exist_ok=True)
            digest = hashlib.sha1((fkey + json.dumps(rep, sort_keys=True)[:2000]).encode()).hexdigest()[:12]
            path = os.path.join(d, digest + ".json")
            json.dump({"property": self.pid, "key": fkey, "what": what, "seed": self.seed, "case": rep},
                      open(path, "w"), indent=1)
            log(f"  violation: {fkey}: {what}")
            print(f"VIOLATION property={self.pid} replay={path}")
        ev = {"property_id": self.pid, "tier": self.tier, "seed": self.seed, "level": level,
              "coverage": self.cov, "assumptions": self.assumptions,
              "wall_s": round(time.time() - self.t0, 2), "violations": len(reported),
              "known_findings_hit": sorted(seen_known), "notes": self.notes}
        os.makedirs(os.path.join(ROOT, "evidence"), exist_ok=True)
        json.dump(ev, open(os.path.join(ROOT, "evidence", self.pid + ".json"), "w"), indent=1)
        return 1 if reported else 0
