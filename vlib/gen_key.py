"""Key (Rust type expression) of a type descriptor, as spec/Universe.tla Key."""
import importlib.util
import os
import sys

_spec = importlib.util.spec_from_file_location("gen_universe", os.path.join("/verif", "gen", "gen_universe.py"))
_GU = importlib.util.module_from_spec(_spec)
_spec.loader.exec_module(_GU)


def key_of_desc(d):
    try:
        return _GU.key_of(d)
    except Exception:
        return str(d.get("k"))
