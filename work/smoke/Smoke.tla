---- MODULE Smoke ----
EXTENDS Universe, Json
VARIABLE x
Init == x = 0
Next == UNCHANGED x
T1 == Vec(ZPad)
ASSUME PrintT(<<"card", Cardinality(Types1Quick), Cardinality(Types1Full), Cardinality(Types1Small), Cardinality(Types2Small)>>)
ASSUME PrintT(<<"sizes", SizeOf(ZPad), AlignOf(ZPad), Unit(ZPad), SizeOf(ZEP), AlignOf(ZEP), SizeOf(ZA16), Unit(ZA16), SizeOf(ZNest)>>)
ASSUME PrintT(Values(T1))
ASSUME PrintT(Stream(T1, Values(T1)[4], 5))
ASSUME PrintT(TypeHashOf(G(Vec(ZPad))))
ASSUME PrintT(AlignHashOf(G(Vec(ZPad))))
ASSUME PrintT(ToJson(DeserShape(G(Vec(ZPad)))))
ASSUME PrintT(<<"nvals", SumSeq([i \in 1..1 |-> 0])>>)
====
