CONSTANTS UsizeBytes = 8 ZstUnit = 0 VLevel = 1
INIT Init
NEXT Next
