#!/usr/bin/env python3
"""Writes /verif/MANIFEST.json from the table below (one entry per claimed property)."""
import json

TRUST = ("TLC 1.8.0 and the CommunityModules JSON reader; rustc/cargo; the harness' Model/Proj bridge "
         "(from_aval/to_aval per type constructor, generated for derived types from the specification's "
         "definitions); xxh3 (xxhash-rust) for turning the specification's hash preimage into header words; "
         "small scope: the universe of spec/Universe.tla (types to nesting depth 1 in quick, 2 in thorough), "
         "small value domains of spec/EpsValues.tla.")

CHECKS = {
 "C01": ("model checking + conformance replay",
         "TLC checks FullRoundTrip (serializer machine -> full-copy reader machine returns the value, consuming every byte) "
         "on every (type, value, entry point, preceding length) of the bounded universe; every terminal state is replayed "
         "into the real library (serialize -> deserialize_full, public API and inner API at each stream offset) and the "
         "abstract value compared bit for bit. Alarm = real round trip fails, panics, aborts or changes the value. "
         "Implementation -> specification: recorded runs on random types and values far outside TLC's bounds; the value the "
         "real readers returned (Trace_Ser) and the real full-copy reader call by call - every read_exact and align request on "
         "a recording ReadWithPos, the returned value and final position - validated by TLC against the reader machine "
         "(Trace_Read).",
         "6 C01"),
 "C02": ("model checking + conformance replay",
         "TLC checks EpsRoundTrip (ε-copy machine on an aligned buffer returns the same abstract value as was serialized and "
         "as full copy) on the bounded universe; each behaviour is replayed: deserialize_eps on a 128-byte aligned copy of the "
         "real stream, the result projected through Proj (borrowed slices / references / rebuilt skeleton) and compared with the "
         "original value and with the full-copy result; the ε-copy type name is compared with the specification's DeserShape.",
         "6 C02"),
 "C03": ("model checking + conformance replay",
         "TLC checks BorrowsInPlace (every borrow of the ε-copy machine is a block row of the serializer machine: same offset, "
         "same length, inside the input, aligned for its element type); replay compares pointer-minus-base, byte length and "
         "address residue of every borrowed part of the real ε-copy result with the specification's borrow list and with the "
         "blocks the real serializer wrote (recording WriteWithNames), at the aligned base and at base residues 1, 2, 4, 8; "
         "allocation independence: the specification's Scale operator lengthens every borrowed sequence 3 and 16 times and "
         "the bytes allocated by the real ε-copy call must not change.",
         "6 C03"),
 "C06": ("model checking + conformance replay (reference encoder)",
         "EpsFormat.tla is the published format 1.1 as a pure function; TLC checks OutIsEncode (the step machine's output is "
         "Header ++ Encode) and the replay compares every byte the real serializer emits with the specification's stream "
         "(hash words = xxh3 of the specification's preimage, struct-internal padding ignored), and the real hash preimages "
         "(recording Hasher) with the specification's recipe for every type of the universe.",
         "6 C06"),
 "C07": ("model checking + conformance replay",
         "TLC checks PosCounts, BlockAligned, UnitsSane on every state of the serializer machine over all preceding lengths; "
         "the replay observes the real run through a recording WriteWithNames that delegates to the real WriterWithPos: every "
         "align request (unit = real max_size_of, position before/after), every block (offset, unit, native alignment), the "
         "returned count, the bytes handed to the sink, and the bytes consumed by both deserializers. Recorded runs on random "
         "types are validated by TLC against Trace_Ser (alignment requests, bytes, counts) and Trace_Read (the reader's align "
         "requests with unit / position / skip, and full consumption).",
         "6 C07"),
 "C18": ("model checking + conformance replay",
         "The serializer machine builds schema rows as SchemaWriter does; TLC checks RowsWithin/RowsPreorder/RowsAligned/"
         "PaddingZero/SchemaTiles/SchemaTopTiles at every terminal state; the replay calls serialize_with_schema, compares its "
         "bytes with plain serialization, evaluates the same geometric predicates on the real rows and calls to_csv / debug "
         "under catch_unwind; row-by-row drift from the specification is noted, not alarmed.",
         "6 C18"),
 "C13": ("model checking + conformance replay (fault schedules)",
         "MC_Ser: the serializer machine against a sink that may reject every write_all call after any prefix of its buffer and "
         "fail on flush (all fault positions by nondeterminism); TLC checks NoPanic, FaultIsError, OutIsPrefix, SourceIntact, "
         "FakeBalanced in every state; every terminal state is replayed with exactly its fault (reject call n after k bytes / "
         "flush failure) against the real serializer, for owned values, slice references, exact-size iterators and structures "
         "holding them; the tracking allocator reports a free of the lent source block; std::io::Write sinks that split, "
         "interrupt, return Ok(0) or fail, and store() onto /dev/full and unopenable paths are driven from the harness.",
         "6 C13"),
 "C16": ("model checking + conformance replay",
         "MC_Ser over every slice / exact-size-iterator source (standalone, inside G<_>, and slices whose items are slices): TLC checks that the machine's output "
         "equals the reference encoding of the corresponding vector and that a lying iterator ends in LengthMismatch(actual, "
         "announced) for all announced lengths 0..3; replay: the real stream of the source is byte-compared with the real stream "
         "of the vector, deserialized as the vector type in both modes, and lying iterators are replayed.",
         "6 C18"),
 "C10": ("model checking + conformance replay (mutation of real streams)",
         "MC_Reader: after the serializer machine, every single-bit flip of the 29 fixed header bytes, the byte-reversed cookie "
         "and boundary minor versions are applied and both reader machines run; TLC checks HeaderRule (the specific error with "
         "the offending value; lower minor accepted with the same value) and NeverPanicOnHeader; each terminal state is replayed "
         "by applying the same mutation to the real stream and calling both real deserializers; all minor versions 0..65535 are "
         "replayed on the real code in thorough.",
         "6 C10"),
 "C11": ("model checking + conformance replay (all cut points)",
         "MC_Reader with every cut k in [0, len): TLC checks TruncNeverValue (full copy: ReadError; ε-copy: error or bounds panic, "
         "never ok) and InBounds; every (type, value, k) is replayed on the real prefix: deserialize_full, and deserialize_eps "
         "at base 0 and on an exactly-sized copy that ends at a PROT_NONE guard page (a read past the prefix kills the process "
         "and is reported). On real files: every strict prefix of stored files through load_full (read error) and mmap (must "
         "fail), with the system calls of each load (strace) validated by TLC against Trace_Loader.tla: the mapping is exactly "
         "the prefix.",
         "6 C11"),
 "C12": ("model checking + conformance replay (all placements)",
         "MC_Reader with every base residue 0..127: TLC checks PlaceRule (ok iff every block row of the serializer machine lands "
         "on a multiple of its unit, else AlignmentError; references aligned) and ByteAlignedAnywhere; every (type, value, "
         "residue) is replayed by copying the real stream to that residue of a 128-aligned buffer.",
         "6 C12"),
 "C14": ("model checking + conformance replay (reader schedules)",
         "MC_Reader with a reader that may fail any read_exact: TLC checks ReaderFailRule (ReadError, never a value or panic); "
         "the real full-copy deserializer is driven with std::io::Read readers that fragment (1-byte, primes, seeded random, "
         "interleaved Interrupted) and that fail at every byte position of every stream of the universe.",
         "6 C14"),
 "C15": ("model checking + conformance replay (tag mutation)",
         "The serializer machine marks every tag site (Option/Bound/ControlFlow byte tags, derived-enum word tags) with its "
         "number of valid values; MC_Reader overwrites each site with foreign values (byte tags: a class sample in quick, all "
         "256 in thorough; word tags: n, n+1, 255, 256, 2^32, 2^63, 2^64-1) and TLC checks TagRule (InvalidTag carrying exactly "
         "that value in both modes); each is replayed on the real stream. The round trip of every variant is C01/C02's replay.",
         "6 C15"),
 "C19": ("model checking + conformance replay + trace validation",
         "Cursor.tla is the reference semantics (std::io::Cursor<Vec<u8>>); TLC enumerates every history to depth 4/5 over an "
         "alphabet of writes (incl. empty), reads, seeks (start/current/end, negative, past the end) and set_position, each "
         "replayed on AlignedCursor<A16>, AlignedCursor<A64> and std's cursor with result, contents, length, position and "
         "storage alignment compared after every step; seeded random histories (400-1500 operations) recorded from the real "
         "cursor are validated by TLC against Trace_Cursor.tla (every event = the specification's action with the same "
         "observations); 64-bit overflow arms are compared with std directly.",
         "6 C19"),
 "C04": ("model checking (injectivity of the hash recipes) + conformance replay (cross-deserialization)",
         "MC_Hash: over a universe that contains every core definition with its near-miss mutants (spec/Derive.tla: field "
         "renamed, fields swapped, same-size field type, copy kind toggled, const name, repr attribute, array length / sequence "
         "kind, variant renamed / reordered; const values and generic arguments by instantiation) under the constructors whose "
         "hashes recurse, TLC checks that equal (type-hash, align-hash) preimages imply the same serialized structure and that "
         "slice / iterator / vector share both. Binding: real preimages (recording Hasher) = specification's for every "
         "compiled type; real header words grouped; real cross-deserialization of T's bytes as U (both modes) for every pair "
         "of each mutant family, every pair flagged at design level, every equal-word pair and a seeded sample of the rest.",
         "6 C04"),
 "C08": ("model checking + conformance replay (loader configurations, owner histories)",
         "MemCase.tla models the four loaders step by step and the owner's life cycle; TLC checks RegionSound (capacity = length "
         "rounded up to 64 / 16 / none, live, zero tail for the copying loaders) and LiveWhileReadable over every loader x 8 flag "
         "sets x every file-length residue modulo 64 x owner histories (move, box, send, Arc with two readers); each terminal "
         "state is replayed on a real file: store() bytes = serialize() bytes, loaded structure = original value, region "
         "(through the cfg hook) capacity / alignment / zero tail / containment of every borrowed part, digest stable across "
         "moves and threads, also for files of 15-45 KB made of many small items; replayed for the default feature set and for "
         "the build without mmap. Implementation -> "
         "specification: the same cases run under strace; open flags of store(), bytes written, statx, mmap length / protection "
         "/ backing, allocator calls (size, alignment), read lengths, mprotect, and the Flags -> madvise table are validated "
         "by TLC against Trace_Loader.tla. Fresh allocations are poisoned so that the zero tail is the library's doing.",
         "6 C08"),
 "C09": ("model checking + conformance replay (failure causes x loaders); lifetime part by generated compile probes",
         "TLC checks ReleasedAtMostOnce, NoLeakOnFailure, ReleasedWhenDropped, StructureBeforeBackend on MemCase.tla over every "
         "loader x failure cause (wrong type, wrong align hash, corrupt, truncated, empty, missing, over-aligned type, a directory "
         "in place of the file: the read step fails) and the in-memory case (MemCase::encase, no backend); each is "
         "replayed on a real file with the tracking allocator (live heap bytes) and /proc/self/maps (mappings) compared before "
         "the load, after a failed load and after the drop of a successful one; a canary structure whose Drop reads its "
         "borrowed slice observes the drop order. Implementation -> specification: every case also runs under strace; munmap / "
         "dealloc of the region (exactly one, same range / layout, after the structure's Drop marker, before the loader returns "
         "on its error path) validated by TLC against Trace_Loader.tla.",
         "6 C09"),
 "C05": ("model checking + generated programs (derive grammar) + conformance replay",
         "spec/Derive.tla enumerates the supported grammar of definitions (385 definitions, 1185 instantiations within the "
         "bounds) with the predictions of the recipe operators; the generator writes them as Rust with #[derive(Epserde)]: "
         "per-definition compilation outcome from cargo's JSON messages, real ε-copy type name / IS_ZERO_COPY / layout / hash "
         "preimages against the predictions, and MC_RoundTrip over the grammar types (serializer, full-copy and ε-copy machines, "
         "all invariants) with every behaviour replayed into the derived code in both modes.",
         "6 C05"),
 "C17": ("model checking + generated compile probes and run-time probes",
         "spec/Derive.tla WrongZero derives from every valid zero-copy definition the wrongly declared ones (a field replaced by "
         "vector / string / boxed slice / deep struct / &'static str / &'static [u8] / Option / raw pointer, repr(C) dropped, "
         "zero_copy + deep_copy) with the layer that must reject each; each becomes a compile probe (with and without "
         "derive(Copy)) that must not compile. MC_WrongZero runs the serializer machine on every context holding a "
         "hand-declared zero-copy type with a pointer inside (invariants NoRawHandle, PanicsBeforeValue); each context is a "
         "run-time probe: serialization must panic and the pointer bytes must not reach the writer.",
         "6 C17"),
}


TRACED = {"C01", "C02", "C03", "C06", "C07", "C18", "C19", "C08", "C09", "C11"}


def main():
    props = [json.loads(l) for l in open("/verif/properties.jsonl")]
    checks = []
    for pid, (tech, text, ref) in CHECKS.items():
        checks.append({
            "property_id": pid,
            "quick_cmd": f"./check {pid} quick",
            "thorough_cmd": f"./check {pid} thorough",
            "evidence_file": f"/verif/evidence/{pid}.json",
            "replay_cmd_template": f"./check {pid} --replay {{path}}",
            "engine": "tlc+harness",
            "level_claimed": {"category": "model_checking", "text": text, "design_ref": "DESIGN.md section 6 " + pid},
            "level_note": TRUST,
            "technique": "TLA+ specification checked with TLC; TLC behaviours replayed into the real library (" + tech + ")"
                         + ("; recorded executions validated by TLC against Trace_*.tla" if pid in TRACED else ""),
        })
    na = [{"property_id": p["id"], "reason": "check not built yet (work in progress; see DESIGN.md section 6)"}
          for p in props if p["id"] not in CHECKS]
    m = {
        "version": 1,
        "setup_cmd": "./check setup",
        "hooks": {
            "guard": "epserde_verif",
            "enable": "RUSTFLAGS '--cfg epserde_verif --check-cfg cfg(epserde_verif)' set in /verif/harness/.cargo/config.toml",
            "baseline_off_cmd": "cd /repo && cargo test --workspace --no-fail-fast --offline",
            "source_commits": ["723a3a3"],
            "add_only": True,
        },
        "engines": [
            {"name": "tlc+harness", "path": "/verif/check",
             "serves_properties": sorted(CHECKS),
             "kind_free_text": "explicit TLA+ specification (spec/*.tla) model checked with TLC; behaviours printed by TLC are "
                               "replayed into the real library by the Rust harness (harness/), whose universe of types is "
                               "generated from the specification (gen/gen_universe.py)"},
        ],
        "checks": checks,
        "notes": "See DESIGN.md. exit 0 = held, 1 = VIOLATION line + replay file, 2 = tool error.",
        "not_applicable": na,
    }
    json.dump(m, open("/verif/MANIFEST.json", "w"), indent=1)


if __name__ == "__main__":
    main()
