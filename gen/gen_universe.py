#!/usr/bin/env python3
"""Turn the universe exported by TLC (spec/MC_Export.tla) into Rust.

Input : the stdout of TLC on MC_Export (JSON lines: one `defs` record, one `type` record per type)
Output: harness/src/universe.rs  -- derived type definitions with Model/Proj impls and the dispatch table
        work/universe.json       -- the parsed records (key -> predictions), read by the harness' `recipes`

The set of types that is compiled and run is therefore decided by the specification.
"""
import json
import os
import sys

PRIM_PATH = {n: f"core::num::{n}" for n in [
    "NonZeroU8", "NonZeroU16", "NonZeroU32", "NonZeroU64", "NonZeroU128", "NonZeroUsize",
    "NonZeroI8", "NonZeroI16", "NonZeroI32", "NonZeroI64", "NonZeroI128", "NonZeroIsize"]}


def parse_tlc_json_lines(path):
    recs = []
    with open(path) as f:
        for line in f:
            line = line.rstrip("\n")
            if line.startswith('"{') or line.startswith('"['):
                recs.append(json.loads(json.loads(line)))
    return recs


def rust_type(d, params=None, lt="'static"):
    """Rust type expression of a descriptor. `params`: names of type parameters for generic forms."""
    k = d["k"]
    r = lambda x: rust_type(x, params, lt)
    if k == "prim":
        return PRIM_PATH.get(d["name"], d["name"])
    if k == "unit":
        return "()"
    if k == "hw":
        return (params or {}).get("prefix", "") + "HW"
    if k == "staticstr":
        return "&'static str"
    if k == "staticslice":
        return "&'static [u8]"
    if k == "rawptr":
        return "*const u8"
    if k == "deeppod":
        return "probes::DeepPod"
    if k == "seriter":
        return f"SerIter<'static, {r(d['elem'])}, std::slice::Iter<'static, {r(d['elem'])}>>"
    if k == "rangefull":
        return "core::ops::RangeFull"
    if k == "string":
        return "String"
    if k == "boxstr":
        return "Box<str>"
    if k == "str":
        return "str"
    if k == "phantom":
        return f"core::marker::PhantomData<{r(d['arg'])}>"
    if k == "htuple":
        return "(" + "".join(r(e) + "," for e in d["elems"]) + ")"
    if k == "vec":
        return f"Vec<{r(d['elem'])}>"
    if k == "boxslice":
        return f"Box<[{r(d['elem'])}]>"
    if k == "slice":
        return f"&{lt} [{r(d['elem'])}]"
    if k == "array":
        return f"[{r(d['elem'])}; {d['n']}]"
    if k == "carray":
        return f"[{r(d['elem'])}; {params['consts'][d['ci'] - 1]}]"
    if k == "tuple":
        return "(" + (r(d["elem"]) + ",") * d["n"] + ")"
    if k == "option":
        return f"Option<{r(d['elem'])}>"
    if k == "bound":
        return f"core::ops::Bound<{r(d['elem'])}>"
    if k == "cflow":
        return f"core::ops::ControlFlow<{r(d['b'])}, {r(d['c'])}>"
    if k == "range":
        return f"core::ops::{d['rk']}<{r(d['elem'])}>"
    if k == "param":
        return params["types"][d["i"] - 1]
    if k in ("struct", "enum"):
        args = [r(tp["arg"]) for tp in d["tps"]] + [str(c["val"]) for c in d["consts"]]
        if d["name"].endswith("d4"):      # const parameters declared first (spec/Derive.tla, decoration 4)
            args = [str(c["val"]) for c in d["consts"]] + [r(tp["arg"]) for tp in d["tps"]]
        pre = (d.get("mod") + "::") if d.get("mod") else ""
        if not pre and params and params.get("inmod"):
            pre = "super::"     # inside a mutant's module a core definition is shadowed by its namesake mutant
        if not pre and params and params.get("prefix"):
            pre = params["prefix"]
        return pre + d["name"] + ("<" + ", ".join(args) + ">" if args else "")
    # epsilon-copy shapes
    if k == "bslice":
        return f"&{lt} [{r(d['elem'])}]"
    if k == "bstr":
        return f"&{lt} str"
    if k == "ref":
        return f"&{lt} {r(d['to'])}"
    raise ValueError(k)


def key_of(d):
    """Must agree with Key(T) of spec/Universe.tla."""
    k = d["k"]
    if k == "prim":
        return d["name"]
    if k == "unit":
        return "()"
    if k == "rangefull":
        return "RangeFull"
    if k == "string":
        return "String"
    if k == "boxstr":
        return "Box<str>"
    if k == "str":
        return "str"
    if k == "phantom":
        return f"PhantomData<{key_of(d['arg'])}>"
    if k == "htuple":
        return "(" + "".join(key_of(e) + "," for e in d["elems"]) + ")"
    if k == "vec":
        return f"Vec<{key_of(d['elem'])}>"
    if k == "boxslice":
        return f"Box<[{key_of(d['elem'])}]>"
    if k == "slice":
        return f"&[{key_of(d['elem'])}]"
    if k == "seriter":
        return f"SerIter<{key_of(d['elem'])}>"
    if k == "array":
        return f"[{key_of(d['elem'])};{d['n']}]"
    if k == "tuple":
        return "(" + (key_of(d["elem"]) + ",") * d["n"] + ")"
    if k == "option":
        return f"Option<{key_of(d['elem'])}>"
    if k == "bound":
        return f"Bound<{key_of(d['elem'])}>"
    if k == "cflow":
        return f"ControlFlow<{key_of(d['b'])},{key_of(d['c'])}>"
    if k == "range":
        return f"{d['rk']}<{key_of(d['elem'])}>"
    if k in ("struct", "enum"):
        pre = (d.get("mod") + "::") if d.get("mod") else ""
        if not d["tps"] and not d["consts"]:
            return pre + d["name"]
        return pre + d["name"] + "<" + "".join(key_of(tp["arg"]) + "," for tp in d["tps"]) + \
            "".join(str(c["val"]) + "," for c in d["consts"]) + ">"
    raise ValueError(k)


def fname(n):
    """Rust field accessor for a field name ("0" for tuple structs)."""
    return n


def gen_def(d, out):
    name = d["name"]
    tparams = d["tparams"]
    cparams = d["cparams"]
    P = {"types": tparams, "consts": [c["name"] for c in cparams], "inmod": bool(d.get("mod"))}
    zc = d["zc"]
    tb = list(d.get("tbounds") or [""] * len(tparams))
    tdef = d.get("tdefaults") or [""] * len(tparams)
    wherec = d.get("wherec") or ""
    generics_decl = ", ".join([t + (": " + b if b else "") + (" = " + df if df else "") for t, b, df in zip(tparams, tb, tdef)] +
                              [f"const {c['name']}: {c['ck']}" for c in cparams])
    where_decl = (" where " + wherec) if wherec else ""
    if wherec:
        # the impls written here must repeat the predicate: fold it into the parameter's bounds
        wn, wb = [x.strip() for x in wherec.split(":")]
        i = tparams.index(wn)
        tb[i] = (tb[i] + " + " + wb) if tb[i] else wb
    generics_use = ", ".join(tparams + [c["name"] for c in cparams])
    if d["name"].endswith("d4"):          # const parameters declared first
        generics_decl = ", ".join([f"const {c['name']}: {c['ck']}" for c in cparams] +
                                  [t + (": " + b if b else "") + (" = " + df if df else "") for t, b, df in zip(tparams, tb, tdef)])
        generics_use = ", ".join([c["name"] for c in cparams] + tparams)
    gd = f"<{generics_decl}>" if generics_decl else ""
    gu = f"<{generics_use}>" if generics_use else ""
    derives = "epserde::Epserde, Debug, Clone" + (", Copy" if zc else "")
    attrs = [f"#[derive({derives})]"]
    for r in d["reprs"]:
        attrs.append(f"#[repr({r})]")
    if zc:
        attrs.append("#[zero_copy]")
    if d["da"]:
        attrs.append("#[deep_copy]")
    out.append("\n".join(attrs))
    is_tuple_struct = d["dk"] == "struct" and d["fields"] and d["fields"][0]["name"] == "0"

    def fields_decl(fs, named, pub):
        p = "pub " if pub else ""
        if named:
            return "{ " + ", ".join(f"{p}{f['name']}: {rust_type(f['g'], P)}" for f in fs) + " }"
        return "(" + ", ".join(f"{p}{rust_type(f['g'], P)}" for f in fs) + ")"

    if d["dk"] == "struct":
        if not d["fields"]:
            out.append(f"pub struct {name}{gd}{where_decl} {{}}")
        elif is_tuple_struct:
            out.append(f"pub struct {name}{gd}{fields_decl(d['fields'], False, True)}{where_decl};")
        else:
            out.append(f"pub struct {name}{gd}{where_decl} {fields_decl(d['fields'], True, True)}")
    else:
        vs = []
        for v in d["variants"]:
            if v["vk"] == "unit":
                vs.append(v["name"])
            elif v["vk"] == "tuple":
                vs.append(v["name"] + fields_decl(v["fields"], False, False))
            else:
                vs.append(v["name"] + " " + fields_decl(v["fields"], True, False))
        out.append(f"pub enum {name}{gd}{where_decl} {{ " + ", ".join(vs) + " }")

    # ---- Model ----
    def bounds(tr):
        bs = [f"{t}: {tr}" + (" + " + b if b else "") for t, b in zip(tparams, tb)] + \
             [f"const {c['name']}: {c['ck']}" for c in cparams]
        return "<" + ", ".join(bs) + ">" if bs else ""

    def used(i):
        fs = d["fields"] if d["dk"] == "struct" else [f for v in d["variants"] for f in v["fields"]]
        return any(f["g"] == {"k": "param", "i": i} for f in fs)

    def field_desc(f):
        p = f["g"]["i"] if f["g"]["k"] == "param" else 0
        return f'json!({{"name": "{f["name"]}", "ty": <{rust_type(f["g"], P)} as Model>::desc(), "p": {p}}})'

    tps = ", ".join(
        f'json!({{"name": "{t}", "arg": <{t} as Model>::desc(), "used": {str(used(i + 1)).lower()}}})'
        for i, t in enumerate(tparams))
    consts = ", ".join(
        f'json!({{"name": "{c["name"]}", "ck": "{c["ck"]}", "val": {c["name"]}}})' for c in cparams)
    reprs = ", ".join(f'"{r}"' for r in d["reprs"])
    common = f'"name": "{name}", "zc": {str(zc).lower()}, "da": {str(d["da"]).lower()}, ' \
             f'"reprs": [{reprs}], "consts": [{consts}], "tps": [{tps}]'

    out.append(f"impl{bounds('Model')} Model for {name}{gu} {{")
    if d["dk"] == "struct":
        fds = ", ".join(field_desc(f) for f in d["fields"])
        out.append(f'    fn desc() -> Value {{ json!({{"k": "struct", {common}, "fields": [{fds}]}}) }}')
        if is_tuple_struct:
            ctor = name + "(" + ", ".join(
                f"<{rust_type(f['g'], P)} as Model>::from_aval(&a[{i}])" for i, f in enumerate(d["fields"])) + ")"
            arb = name + "(" + ", ".join(
                f"<{rust_type(f['g'], P)} as Model>::arb(g)" for f in d["fields"]) + ")"
        else:
            ctor = name + " { " + ", ".join(
                f"{f['name']}: <{rust_type(f['g'], P)} as Model>::from_aval(&a[{i}])"
                for i, f in enumerate(d["fields"])) + " }"
            arb = name + " { " + ", ".join(
                f"{f['name']}: <{rust_type(f['g'], P)} as Model>::arb(g)" for f in d["fields"]) + " }"
        out.append(f"    fn from_aval(v: &AVal) -> Self {{ let a = v.as_array().unwrap(); let _ = a; {ctor} }}")
        out.append("    fn to_aval(&self) -> AVal { json!([" + ", ".join(
            f"self.{f['name']}.to_aval()" for f in d["fields"]) + "]) }")
        out.append(f"    fn arb(g: &mut Gen) -> Self {{ let _ = &g; {arb} }}")
    else:
        vds = []
        for v in d["variants"]:
            fds = ", ".join(field_desc(f) for f in v["fields"])
            vds.append(f'json!({{"name": "{v["name"]}", "vk": "{v["vk"]}", "fields": [{fds}]}})')
        out.append(f'    fn desc() -> Value {{ json!({{"k": "enum", {common}, "variants": [{", ".join(vds)}]}}) }}')
        arms_from, arms_to, arms_arb = [], [], []
        for vi, v in enumerate(d["variants"]):
            fs = v["fields"]
            if v["vk"] == "unit":
                arms_from.append(f"{vi} => {name}::{v['name']},")
                arms_to.append(f"{name}::{v['name']} => json!([{vi}]),")
                arms_arb.append(f"{vi} => {name}::{v['name']},")
            elif v["vk"] == "tuple":
                binds = ", ".join(f"x{i}" for i in range(len(fs)))
                arms_from.append(f"{vi} => {name}::{v['name']}(" + ", ".join(
                    f"<{rust_type(f['g'], P)} as Model>::from_aval(&a[{i + 1}])" for i, f in enumerate(fs)) + "),")
                arms_to.append(f"{name}::{v['name']}({binds}) => json!([{vi}, " + ", ".join(
                    f"x{i}.to_aval()" for i in range(len(fs))) + "]),")
                arms_arb.append(f"{vi} => {name}::{v['name']}(" + ", ".join(
                    f"<{rust_type(f['g'], P)} as Model>::arb(g)" for f in fs) + "),")
            else:
                binds = ", ".join(f["name"] for f in fs)
                arms_from.append(f"{vi} => {name}::{v['name']} {{ " + ", ".join(
                    f"{f['name']}: <{rust_type(f['g'], P)} as Model>::from_aval(&a[{i + 1}])"
                    for i, f in enumerate(fs)) + " },")
                arms_to.append(f"{name}::{v['name']} {{ {binds} }} => json!([{vi}, " + ", ".join(
                    f"{f['name']}.to_aval()" for f in fs) + "]),")
                arms_arb.append(f"{vi} => {name}::{v['name']} {{ " + ", ".join(
                    f"{f['name']}: <{rust_type(f['g'], P)} as Model>::arb(g)" for f in fs) + " },")
        out.append("    fn from_aval(v: &AVal) -> Self { let a = v.as_array().unwrap(); "
                   "match a[0].as_u64().unwrap() { " + " ".join(arms_from) + ' _ => panic!("variant") } }')
        out.append("    fn to_aval(&self) -> AVal { match self { " + " ".join(arms_to) + " } }")
        out.append(f"    fn arb(g: &mut Gen) -> Self {{ match g.below({len(d['variants'])}) {{ " +
                   " ".join(arms_arb) + " _ => unreachable!() } }")
    out.append("}")

    # ---- Proj (by value): the value itself is what an ε-copy result contains when the type is
    # deep-copy (with parameters replaced) or when a zero-copy type was fully copied into a field
    if zc:
        out.append(f"impl{bounds('Model')} Proj for {name}{gu} {{ fn proj(&self, _c: &mut Ctx) -> AVal {{ self.to_aval() }} }}")
    else:
        pb = [f"{t}: Proj" + (" + " + b if b else "") for t, b in zip(tparams, tb)] + \
             [f"const {c['name']}: {c['ck']}" for c in cparams]
        pbs = "<" + ", ".join(pb) + ">" if pb else ""
        out.append(f"impl{pbs} Proj for {name}{gu} {{")
        if d["dk"] == "struct":
            lets = " ".join(f"let f{i} = self.{f['name']}.proj(cx__);" for i, f in enumerate(d["fields"]))
            out.append(f"    fn proj(&self, cx__: &mut Ctx) -> AVal {{ let _ = &cx__; {lets} json!([" +
                       ", ".join(f"f{i}" for i in range(len(d["fields"]))) + "]) }")
        else:
            arms = []
            for vi, v in enumerate(d["variants"]):
                fs = v["fields"]
                if v["vk"] == "unit":
                    arms.append(f"{name}::{v['name']} => json!([{vi}]),")
                else:
                    if v["vk"] == "tuple":
                        names = [f"x{i}" for i in range(len(fs))]
                        pat = f"{name}::{v['name']}(" + ", ".join(names) + ")"
                    else:
                        names = [f["name"] for f in fs]
                        pat = f"{name}::{v['name']} {{ " + ", ".join(names) + " }"
                    lets = " ".join(f"let p{i} = {n}.proj(cx__);" for i, n in enumerate(names))
                    arms.append(f"{pat} => {{ {lets} json!([{vi}, " + ", ".join(
                        f"p{i}" for i in range(len(fs))) + "]) }")
            out.append("    fn proj(&self, cx__: &mut Ctx) -> AVal { let _ = &cx__; match self { " + " ".join(arms) + " } }")
        out.append("}")
    out.append("")


def contains_kind(d, kinds):
    if isinstance(d, dict):
        if d.get("k") in kinds:
            return True
        return any(contains_kind(v, kinds) for v in d.values())
    if isinstance(d, list):
        return any(contains_kind(v, kinds) for v in d)
    return False


NSHARDS = 12


def table_line(r):
    d = r["desc"]
    key = r["key"]
    k = d["k"]
    esc = key.replace('"', '\\"')
    if k == "slice" and d["elem"]["k"] == "slice":
        return f'    t.push(("{esc}", Box::new(SliceSliceSrc::<{rust_type(d["elem"]["elem"])}>::new())));'
    if k == "slice":
        return f'    t.push(("{esc}", Box::new(SliceSrc::<{rust_type(d["elem"])}>::new())));'
    if k == "seriter":
        return f'    t.push(("{esc}", Box::new(IterSrc::<{rust_type(d["elem"])}>::new())));'
    if k == "struct" and d["name"] == "G" and d["tps"][0]["arg"]["k"] == "slice":
        return f'    t.push(("{esc}", Box::new(GSliceSrc::<{rust_type(d["tps"][0]["arg"]["elem"])}>::new())));'
    if k == "struct" and d["name"] == "G" and d["tps"][0]["arg"]["k"] == "seriter":
        return f'    t.push(("{esc}", Box::new(GIterSrc::<{rust_type(d["tps"][0]["arg"]["elem"])}>::new())));'
    assert not contains_kind(d, ("slice", "seriter")), key
    dt = rust_type(r["dshape"])
    ctor = f"zc(zc_facts::<{rust_type(d)}>)" if r["zct"] else "new()"
    return f'    t.push(("{esc}", Box::new(R::<{rust_type(d)}, {dt}>::{ctor})));'


def main():
    src, hdir, json_out = sys.argv[1], sys.argv[2], sys.argv[3]
    profile = sys.argv[4] if len(sys.argv) > 4 else "core"
    limit = 0
    if profile == "grammar":
        return main_grammar(src, hdir, json_out)
    recs = parse_tlc_json_lines(src)
    defs = [r for r in recs if r.get("rec") == "defs"][0]["defs"]
    types = [r for r in recs if r.get("rec") == "type"]
    types.sort(key=lambda r: (len(r["key"]), r["key"]))
    for r in types:
        assert key_of(r["desc"]) == r["key"], (key_of(r["desc"]), r["key"])
    if limit:
        types = types[:limit]
    hdr = ["// @generated by gen/gen_universe.py from spec/MC_Export.tla -- do not edit",
           "#![allow(clippy::all, non_snake_case, unused_variables, dead_code, unused_imports)]"]
    out = hdr + ["use crate::model::*;", "use serde_json::{json, Value};", ""]
    mods = {}
    for d in defs:
        mods.setdefault(d.get("mod", ""), []).append(d)
    for d in mods.pop("", []):
        gen_def(d, out)
    for m in sorted(mods):
        out.append(f"pub mod {m} {{")
        out.append("    use super::*;")
        body = []
        for d in mods[m]:
            gen_def(d, body)
        out += ["    " + l for b in body for l in b.split("\n")]
        out.append("}")
    write_if_changed(f"{hdir}/src/universe.rs", "\n".join(out) + "\n")
    meta = {}
    shards = [[] for _ in range(NSHARDS)]
    for i, r in enumerate(types):
        meta[r["key"]] = r
        shards[i % NSHARDS].append(table_line(r))
    for i, lines in enumerate(shards):
        body = hdr + ["use harness::model::*;", "use harness::runner::*;", "use harness::universe::*;", "",
                      "pub fn table() -> Vec<(&'static str, Box<dyn Runner>)> {",
                      "    let mut t: Vec<(&'static str, Box<dyn Runner>)> = Vec::new();"] + lines + ["    t", "}"]
        write_if_changed(f"{hdir}/shards/u{i}/src/lib.rs", "\n".join(body) + "\n")
    json.dump({"defs": defs, "types": meta}, open(json_out, "w"))
    print(f"generated {len(types)} types, {len(defs)} definitions, {NSHARDS} shards")


def main_grammar(src, hdir, json_out):
    """The generated universe of C05: harness/g5/{defs,s0..s3,cli}."""
    recs = parse_tlc_json_lines(src)
    defs = [r for r in recs if r.get("rec") == "defs"][0]["defs"]
    types = [r for r in recs if r.get("rec") == "type"]
    types.sort(key=lambda r: (len(r["key"]), r["key"]))
    hdr = ["// @generated by gen/gen_universe.py (grammar profile) from spec/Derive.tla -- do not edit",
           "#![allow(clippy::all, non_snake_case, unused_variables, dead_code, unused_imports, non_camel_case_types)]"]
    out = hdr + ["use harness::model::*;", "use harness::universe::*;", "use serde_json::{json, Value};", ""]
    for d in defs:
        gen_def(d, out)
    g5 = f"{hdir}/g5"
    n = 6
    os.makedirs(f"{g5}/defs/src", exist_ok=True)
    write_if_changed(f"{g5}/defs/src/lib.rs", "\n".join(out) + "\n")
    write_if_changed(f"{g5}/defs/Cargo.toml", CARGO_G5 % {"name": "g5defs", "extra": ""})
    shards = [[] for _ in range(n)]
    meta = {}
    for i, r in enumerate(types):
        meta[r["key"]] = r
        shards[i % n].append(table_line(r))
    for i, lines in enumerate(shards):
        os.makedirs(f"{g5}/s{i}/src", exist_ok=True)
        body = hdr + ["use harness::model::*;", "use harness::runner::*;", "use harness::universe::*;", "use g5defs::*;", "",
                      "pub fn table() -> Vec<(&'static str, Box<dyn Runner>)> {",
                      "    let mut t: Vec<(&'static str, Box<dyn Runner>)> = Vec::new();"] + lines + ["    t", "}"]
        write_if_changed(f"{g5}/s{i}/src/lib.rs", "\n".join(body) + "\n")
        write_if_changed(f"{g5}/s{i}/Cargo.toml", CARGO_G5 % {"name": f"g5s{i}", "extra": 'g5defs = { path = "../defs" }\n'})
    os.makedirs(f"{g5}/cli/src", exist_ok=True)
    deps = 'g5defs = { path = "../defs" }\n' + "".join(f'g5s{i} = {{ path = "../s{i}" }}\n' for i in range(n))
    write_if_changed(f"{g5}/cli/Cargo.toml", CARGO_G5 % {"name": "g5cli", "extra": deps})
    ext = " ".join(f"t.extend(g5s{i}::table());" for i in range(n))
    write_if_changed(f"{g5}/cli/src/main.rs", """// @generated
use std::collections::HashMap;
use std::io::BufWriter;
#[global_allocator]
static GLOBAL: harness::alloc::Tracking = harness::alloc::Tracking;
fn main() {
    std::panic::set_hook(Box::new(|_| {}));
    let args: Vec<String> = std::env::args().collect();
    let mut t: HashMap<&'static str, Box<dyn harness::runner::Runner>> = HashMap::new();
    %s
    let out = std::io::stdout();
    let mut out = BufWriter::new(out.lock());
    if !harness::cli::run_table_cmd(&t, &args, &mut out) { std::process::exit(2); }
}
""" % ext)
    json.dump({"defs": defs, "types": meta}, open(json_out, "w"))
    print(f"generated {len(types)} grammar types, {len(defs)} definitions, {n} shards")


CARGO_G5 = """[package]
name = "%(name)s"
version = "0.1.0"
edition = "2021"

[dependencies]
harness = { path = "../..", default-features = false }
epserde = { path = "/repo/epserde", default-features = false, features = ["std", "derive"] }
serde_json = "1"
%(extra)s"""


def write_if_changed(path, text):
    try:
        if open(path).read() == text:
            return
    except OSError:
        pass
    open(path, "w").write(text)


if __name__ == "__main__":
    main()
