// @generated: the core definitions of spec/Universe.tla (types only)
#![allow(dead_code)]
use epserde::prelude::*;

#[derive(epserde::Epserde, Clone)]
pub struct G3<A, B, C> { pub a: A, pub b: B, pub c: C }

#[derive(epserde::Epserde, Clone, Copy)]
#[repr(C)]
#[zero_copy]
pub struct ZPad { pub a: u8, pub b: u32, pub c: u16 }

#[derive(epserde::Epserde, Clone, Copy)]
#[repr(C)]
#[repr(align(16))]
#[zero_copy]
pub struct ZA16 { pub x: u32 }

#[derive(epserde::Epserde, Clone, Copy)]
#[repr(C)]
#[repr(align(64))]
#[zero_copy]
pub struct ZA64 { pub x: u32 }

#[derive(epserde::Epserde, Clone, Copy)]
#[repr(C)]
#[repr(align(16))]
#[zero_copy]
pub struct ZB16 { pub lo: u64, pub hi: u64 }

#[derive(epserde::Epserde, Clone, Copy)]
#[repr(C)]
#[zero_copy]
pub struct ZUnit {}

#[derive(epserde::Epserde, Clone, Copy)]
#[repr(C)]
#[zero_copy]
pub struct ZNest { pub p: ZPad, pub q: u64 }

#[derive(epserde::Epserde, Clone, Copy)]
#[repr(C)]
#[zero_copy]
pub struct ZArr { pub a: [u16; 3], pub b: u8 }

#[derive(epserde::Epserde, Clone, Copy)]
#[repr(C)]
#[zero_copy]
pub struct ZT(pub u8, pub u64);

#[derive(epserde::Epserde, Clone, Copy)]
#[repr(C)]
#[zero_copy]
pub enum ZE { A, B, C }

#[derive(epserde::Epserde, Clone, Copy)]
#[repr(C)]
#[zero_copy]
pub enum ZEP { A, B(u8, u64), C { x: u16 } }

#[derive(epserde::Epserde, Clone, Copy)]
#[repr(C)]
#[zero_copy]
pub struct ZPh<A: epserde::traits::ZeroCopy> { pub a: u32, pub p: core::marker::PhantomData<A> }

#[derive(epserde::Epserde, Clone, Copy)]
#[repr(C)]
#[zero_copy]
pub struct ZC<const N: usize> { pub a: [u8; N], pub t: u16 }

#[derive(epserde::Epserde, Clone)]
pub struct DS { pub a: u32, pub s: String, pub v: Vec<u16> }

#[derive(epserde::Epserde, Clone)]
#[deep_copy]
pub struct DZ { pub a: u32, pub b: u64 }

#[derive(epserde::Epserde, Clone)]
pub struct DT(pub u8, pub Vec<u64>);

#[derive(epserde::Epserde, Clone)]
pub enum DE { U, T(u8, String), N { x: Vec<u32>, y: bool } }

#[derive(epserde::Epserde, Clone)]
pub struct G<A> { pub id: u64, pub data: A }

#[derive(epserde::Epserde, Clone)]
pub struct G2<A> { pub v: Vec<A>, pub n: u8 }

#[derive(epserde::Epserde, Clone)]
pub enum GE<A, B> { L(A), R { b: Option<B>, k: u16 }, Z }

#[derive(epserde::Epserde, Clone)]
pub struct DC<const N: usize> { pub a: [u32; N], pub s: String }

