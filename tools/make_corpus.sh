#!/bin/bash
# Builds the corpus writer against the PINNED tree of vigna/epserde-rs (the commit before any `fix:`) in a
# scratch area outside /repo and /verif, runs it, and stores the result under /verif/corpus.
# Run once; the corpus is committed. A copy of the harness sources with every `/repo/` path rewritten to the
# scratch worktree is built (cargo refuses a `paths` override next to [patch]).
PINNED=${1:-709c463}
W=/root/scratch/pinned
H=/root/scratch/hpin
rm -rf $H; git -C /repo worktree remove --force $W 2>/dev/null
git -C /repo worktree add -q --detach $W $PINNED || exit 2
mkdir -p $H
rsync -a --exclude target --exclude g5 /verif/harness/ $H/
find $H -name Cargo.toml | xargs sed -i "s#/repo/#$W/#g"
sed -i 's/"g5\/defs", "g5\/cli", "g5\/s0", "g5\/s1", "g5\/s2", "g5\/s3", "g5\/s4", "g5\/s5",//' $H/Cargo.toml
cp /repo/Cargo.lock $H/Cargo.lock
(cd $H && cargo build -p corpus --offline 2>&1 | tail -3)
mkdir -p /verif/corpus
$H/target/debug/corpus 1 2 | gzip -9 > /verif/corpus/corpus.ndjson.gz
echo "{\"written_by\": \"$PINNED\", \"entries\": $(zcat /verif/corpus/corpus.ndjson.gz | wc -l)}" > /verif/corpus/manifest.json
cat /verif/corpus/manifest.json
git -C /repo worktree remove --force $W
rm -rf $H
