#!/bin/bash
# seed_eval.sh <worktree> <seed id> <property> <check ids...>
# 1. confirms the seeded change in the scratch worktree (suite green with it, demo fails with / passes without)
# 2. stores it under /verif/seeded/<id>/
# 3. applies it to /repo, runs the given checks (quick), restores /repo
set -u
WT=$1; ID=$2; PROP=$3; shift 3
OUT=/verif/seeded/$ID
mkdir -p $OUT
cd $WT || exit 2
git checkout -q -- epserde/src epserde-derive/src 2>/dev/null
if ! git apply --check SEED/patch.diff; then echo "PATCH DOES NOT APPLY"; exit 2; fi
DEMO_KIND=test
[ -d SEED/demo ] && DEMO_KIND=project
run_demo() {
  if [ $DEMO_KIND = test ]; then
    cargo test --offline -j 8 -p epserde --test seed_demo 2>&1 | grep -E "^test result" | tail -1
  else
    if [ -x SEED/demo/run.sh ]; then (cd SEED/demo && ./run.sh >/dev/null 2>&1; echo "demo run.sh exit=$?")
    elif [ -d SEED/demo/tests ]; then (cd SEED/demo && cargo test --offline -j 8 2>&1 | grep -E "^test result" | tail -1)
    else (cd SEED/demo && cargo run --offline -j 8 -q >/dev/null 2>&1; echo "demo project exit=$?"); fi
  fi
}
echo "== demo WITHOUT the change"; WITHOUT=$(run_demo); echo "$WITHOUT"
git apply SEED/patch.diff
echo "== suite WITH the change (excluding the demo)"
SUITE=$(cargo test --workspace --no-fail-fast --offline -j 8 2>&1 | grep -E "^test result|^     Running|seed_demo" | awk '/Running/{cur=$0} /test result/{ if (cur !~ /seed_demo/) {p+=$4; f+=$6} } END {print "passed",p,"failed",f}')
echo "$SUITE"
echo "== demo WITH the change"; WITH=$(run_demo); echo "$WITH"
git checkout -q -- epserde/src epserde-derive/src
cp SEED/patch.diff $OUT/patch.diff
[ -f epserde/tests/seed_demo.rs ] && cp epserde/tests/seed_demo.rs $OUT/seed_demo.rs
[ -d SEED/demo ] && rm -rf $OUT/demo && cp -r SEED/demo $OUT/demo && rm -rf $OUT/demo/target
[ -f SEED/README.md ] && cp SEED/README.md $OUT/README.md
# run the checks against /repo with the change applied
cd /repo && git apply $OUT/patch.diff || { echo "cannot apply to /repo"; exit 2; }
RES=""
for c in "$@"; do
  (cd /verif && ./check $c quick > /verif/work/seed_${ID}_$c.out 2> /verif/work/seed_${ID}_$c.err); rc=$?
  nv=$(grep -c "^VIOLATION" /verif/work/seed_${ID}_$c.out)
  first=$(grep "violation:" /verif/work/seed_${ID}_$c.err | head -1 | cut -c1-220)
  echo "== check $c: exit=$rc violations=$nv  $first"
  RES="$RES{\"check\":\"$c\",\"exit\":$rc,\"violations\":$nv},"
done
git -C /repo checkout -- . 
python3 - "$OUT" "$ID" "$PROP" "$WITHOUT" "$SUITE" "$WITH" "[${RES%,}]" <<'PY'
import json,sys,os
out,id_,prop,without,suite,with_,res=sys.argv[1:8]
meta={"id":id_,"breaks_property":prop,"confirmed":{"demo_without_change":without,"suite_with_change":suite,"demo_with_change":with_},
      "checks_run_against_it":json.loads(res)}
old={}
if os.path.exists(out+"/meta.json"):
    old=json.load(open(out+"/meta.json"))
old.update(meta)
json.dump(old,open(out+"/meta.json","w"),indent=1)
PY
